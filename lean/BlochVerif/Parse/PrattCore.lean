/-!
# The Pratt core: binary levels, a prefix operator, a postfix operator, parentheses

An abstract copy of the loop structure of `Parser::parsePrattExpression` / `parsePrefixExpression`
/ `parsePrimary` over an abstract token alphabet: binary operator `k` has left binding power
`lbp k` and right binding power `lbp k + 1` (left-associative), the prefix operator parses its
operand at `PRE`, the postfix operator binds at `POST`.  `roundtrip` says that parsing the
minimal-parenthesis rendering of *any* tree returns the tree (modulo `paren` nodes), for any table
with `lbp k < PRE < POST`.  `Props/C14.lean` instantiates it with the table regenerated from
`parser.cpp`, whose entries are checked (by `decide`) to satisfy exactly these hypotheses and the
level order of `docs/grammar.md`.  Core-only.
-/
namespace BlochVerif.Parse.PrattCore

inductive Tok | num (n : Nat) | op (k : Nat) | neg | bang | lp | rp
  deriving DecidableEq, Repr

inductive E | num (n : Nat) | bin (k : Nat) (l r : E) | neg (e : E) | post (e : E) | paren (e : E)
  deriving DecidableEq, Repr

def PRE : Nat := 14
def POST : Nat := 16

section
variable (lbp : Nat → Nat)

mutual
def primary : Nat → List Tok → Option (E × List Tok)
  | 0, _ => none
  | _+1, .num n :: r => some (.num n, r)
  | f+1, .lp :: r =>
    match pratt f 0 r with
    | some (e, .rp :: r') => some (.paren e, r')
    | _ => none
  | _+1, _ => none
def pfx : Nat → List Tok → Option (E × List Tok)
  | 0, _ => none
  | f+1, .neg :: r =>
    match pratt f PRE r with
    | some (e, r') => some (.neg e, r')
    | none => none
  | f+1, ts => primary f ts
def pratt : Nat → Nat → List Tok → Option (E × List Tok)
  | 0, _, _ => none
  | f+1, m, ts =>
    match pfx f ts with
    | some (l, r) => loop f m l r
    | none => none
def loop : Nat → Nat → E → List Tok → Option (E × List Tok)
  | 0, _, _, _ => none
  | f+1, m, l, .op k :: r =>
    if lbp k < m then some (l, .op k :: r)
    else match pratt f (lbp k + 1) r with
      | some (rt, r') => loop f m (.bin k l rt) r'
      | none => none
  | f+1, m, l, .bang :: r =>
    if POST < m then some (l, .bang :: r) else loop f m (.post l) r
  | _+1, _, l, ts => some (l, ts)
end
end

section proofs
variable (lbp : Nat → Nat)

/-! ### fuel monotonicity -/
theorem mono_all (f : Nat) :
    (∀ ts r, primary lbp f ts = some r → primary lbp (f+1) ts = some r) ∧
    (∀ ts r, pfx lbp f ts = some r → pfx lbp (f+1) ts = some r) ∧
    (∀ m ts r, pratt lbp f m ts = some r → pratt lbp (f+1) m ts = some r) ∧
    (∀ m l ts r, loop lbp f m l ts = some r → loop lbp (f+1) m l ts = some r) := by
  induction f with
  | zero => refine ⟨?_, ?_, ?_, ?_⟩ <;> intros <;> simp_all [primary, pfx, pratt, loop]
  | succ f ih =>
    obtain ⟨ih1, ih2, ih3, ih4⟩ := ih
    refine ⟨?_, ?_, ?_, ?_⟩
    · intro ts r h
      match ts with
      | [] => simp [primary] at h
      | .num n :: rest => simpa [primary] using h
      | .lp :: rest =>
        simp only [primary] at h ⊢
        cases hp : pratt lbp f 0 rest with
        | none => simp [hp] at h
        | some x =>
          rw [ih3 0 rest x hp]; rw [hp] at h; exact h
      | .op k :: rest => simp [primary] at h
      | .neg :: rest => simp [primary] at h
      | .bang :: rest => simp [primary] at h
      | .rp :: rest => simp [primary] at h
    · intro ts r h
      match ts with
      | .neg :: rest =>
        simp only [pfx] at h ⊢
        cases hp : pratt lbp f PRE rest with
        | none => simp [hp] at h
        | some x => rw [ih3 _ _ x hp]; rw [hp] at h; exact h
      | [] => simp only [pfx] at h ⊢; exact ih1 _ _ h
      | .num n :: rest => simp only [pfx] at h ⊢; exact ih1 _ _ h
      | .lp :: rest => simp only [pfx] at h ⊢; exact ih1 _ _ h
      | .op k :: rest => simp only [pfx] at h ⊢; exact ih1 _ _ h
      | .bang :: rest => simp only [pfx] at h ⊢; exact ih1 _ _ h
      | .rp :: rest => simp only [pfx] at h ⊢; exact ih1 _ _ h
    · intro m ts r h
      simp only [pratt] at h ⊢
      cases hp : pfx lbp f ts with
      | none => simp [hp] at h
      | some x =>
        rw [ih2 _ x hp]; rw [hp] at h
        exact ih4 _ _ _ _ h
    · intro m l ts r h
      match ts with
      | .op k :: rest =>
        simp only [loop] at h ⊢
        by_cases hk : lbp k < m
        · simpa [hk] using h
        · simp only [hk, if_false] at h ⊢
          cases hp : pratt lbp f (lbp k + 1) rest with
          | none => simp [hp] at h
          | some x => rw [ih3 _ _ x hp]; rw [hp] at h; exact ih4 _ _ _ _ h
      | .bang :: rest =>
        simp only [loop] at h ⊢
        by_cases hk : POST < m
        · simpa [hk] using h
        · simp only [hk, if_false] at h ⊢; exact ih4 _ _ _ _ h
      | [] => simpa [loop] using h
      | .num n :: rest => simpa [loop] using h
      | .lp :: rest => simpa [loop] using h
      | .neg :: rest => simpa [loop] using h
      | .rp :: rest => simpa [loop] using h

theorem mono_pratt {f f' m ts r} (h : f ≤ f') (hp : pratt lbp f m ts = some r) :
    pratt lbp f' m ts = some r := by
  induction h with
  | refl => exact hp
  | step _ ih => exact (mono_all lbp _).2.2.1 _ _ _ ih

theorem mono_loop {f f' m l ts r} (h : f ≤ f') (hp : loop lbp f m l ts = some r) :
    loop lbp f' m l ts = some r := by
  induction h with
  | refl => exact hp
  | step _ ih => exact (mono_all lbp _).2.2.2 _ _ _ _ ih

def stops (m : Nat) : List Tok → Prop
  | .op k :: _ => lbp k < m
  | .bang :: _ => POST < m
  | _ => True

theorem stops_mono {a b ts} (h : a ≤ b) (hs : stops lbp a ts) : stops lbp b ts := by
  match ts with
  | .op k :: _ => simp only [stops] at hs ⊢; omega
  | .bang :: _ => simp only [stops] at hs ⊢; omega
  | [] => trivial
  | .num _ :: _ => trivial
  | .lp :: _ => trivial
  | .rp :: _ => trivial
  | .neg :: _ => trivial

theorem loop_stop {m ts} (f : Nat) (l : E) (hs : stops lbp m ts) :
    loop lbp (f+1) m l ts = some (l, ts) := by
  match ts with
  | .op k :: _ => simp only [stops] at hs; simp [loop, hs]
  | .bang :: _ => simp only [stops] at hs; simp [loop, hs]
  | [] => simp [loop]
  | .num _ :: _ => simp [loop]
  | .lp :: _ => simp [loop]
  | .rp :: _ => simp [loop]
  | .neg :: _ => simp [loop]

def level : E → Nat
  | .num _ => 100
  | .paren _ => 100
  | .post _ => POST
  | .neg _ => PRE
  | .bin k _ _ => lbp k

def wrap (lv m : Nat) (ts : List Tok) : List Tok := if lv < m then .lp :: ts ++ [.rp] else ts
def nwrap (lv m : Nat) (e : E) : E := if lv < m then .paren e else e

def body : E → List Tok
  | .num n => [.num n]
  | .paren e => .lp :: body e ++ [.rp]
  | .neg e => .neg :: wrap (level lbp e) PRE (body e)
  | .post e => wrap (level lbp e) POST (body e) ++ [.bang]
  | .bin k l r => wrap (level lbp l) (lbp k) (body l) ++ .op k :: wrap (level lbp r) (lbp k + 1) (body r)

def nbody : E → E
  | .num n => .num n
  | .paren e => .paren (nbody e)
  | .neg e => .neg (nwrap (level lbp e) PRE (nbody e))
  | .post e => .post (nwrap (level lbp e) POST (nbody e))
  | .bin k l r => .bin k (nwrap (level lbp l) (lbp k) (nbody l)) (nwrap (level lbp r) (lbp k + 1) (nbody r))

def rend (m : Nat) (e : E) : List Tok := wrap (level lbp e) m (body lbp e)
def norm (m : Nat) (e : E) : E := nwrap (level lbp e) m (nbody lbp e)

def strip : E → E
  | .num n => .num n
  | .paren e => strip e
  | .neg e => .neg (strip e)
  | .post e => .post (strip e)
  | .bin k l r => .bin k (strip l) (strip r)

theorem strip_nwrap (lv m e) : strip (nwrap lv m e) = strip e := by
  unfold nwrap; split <;> simp [strip]

theorem strip_nbody (e : E) : strip (nbody lbp e) = strip e := by
  induction e with
  | num n => simp [nbody, strip]
  | paren e ih => simp [nbody, strip, ih]
  | neg e ih => simp [nbody, strip, strip_nwrap, ih]
  | post e ih => simp [nbody, strip, strip_nwrap, ih]
  | bin k l r ihl ihr => simp [nbody, strip, strip_nwrap, ihl, ihr]

theorem strip_norm (m e) : strip (norm lbp m e) = strip e := by
  simp [norm, strip_nwrap, strip_nbody]

theorem pratt_of_pfx {f m ts l r res} (h1 : pfx lbp f ts = some (l, r))
    (h2 : loop lbp f m l r = some res) : pratt lbp (f+1) m ts = some res := by
  simp [pratt, h1, h2]

theorem pfx_neg {f r e r'} (h : pratt lbp f PRE r = some (e, r')) :
    pfx lbp (f+1) (.neg :: r) = some (.neg e, r') := by
  simp [pfx, h]

theorem pfx_lp {f r x} (h : primary lbp f (.lp :: r) = some x) :
    pfx lbp (f+1) (.lp :: r) = some x := by
  simp [pfx, h]

theorem pfx_num {f n r} : pfx lbp (f+2) (.num n :: r) = some (.num n, r) := by
  simp [pfx, primary]

theorem primary_lp {f r e r'} (h : pratt lbp f 0 r = some (e, .rp :: r')) :
    primary lbp (f+1) (.lp :: r) = some (.paren e, r') := by
  simp [primary, h]

theorem loop_op {f m l k r rt r' res} (hk : ¬ lbp k < m)
    (h1 : pratt lbp f (lbp k + 1) r = some (rt, r'))
    (h2 : loop lbp f m (.bin k l rt) r' = some res) :
    loop lbp (f+1) m l (.op k :: r) = some res := by
  simp [loop, hk, h1, h2]

theorem loop_bang {f m l r res} (hk : ¬ POST < m)
    (h2 : loop lbp f m (.post l) r = some res) :
    loop lbp (f+1) m l (.bang :: r) = some res := by
  simp [loop, hk, h2]

/-- the "continue the loop" statement for the un-parenthesised rendering -/
def K' (e : E) : Prop :=
  ∀ mm m rest res, m ≤ mm → mm ≤ level lbp e → stops lbp (mm+1) rest →
    (∃ f, loop lbp f m (nbody lbp e) rest = some res) →
    ∃ f, pratt lbp f m (body lbp e ++ rest) = some res

def K (e : E) : Prop :=
  ∀ mm m rest res, m ≤ mm → stops lbp (mm+1) rest →
    (∃ f, loop lbp f m (norm lbp mm e) rest = some res) →
    ∃ f, pratt lbp f m (rend lbp mm e ++ rest) = some res

theorem K_of_K' (e : E) (h : K' lbp e) : K lbp e := by
  intro mm m rest res hm hs hl
  unfold rend norm wrap nwrap at *
  by_cases hlv : level lbp e < mm
  · simp only [hlv, if_true] at hl ⊢
    -- inner: parse body at 0 up to the closing paren
    obtain ⟨f1, h1⟩ := h 0 0 (.rp :: rest) (nbody lbp e, .rp :: rest) (Nat.le_refl _) (Nat.zero_le _)
      (by simp [stops]) ⟨1, loop_stop lbp 0 _ (by simp [stops])⟩
    obtain ⟨f2, h2⟩ := hl
    refine ⟨max f1 f2 + 3, ?_⟩
    have e1 : pratt lbp (max f1 f2) 0 (body lbp e ++ .rp :: rest) = some (nbody lbp e, .rp :: rest) :=
      mono_pratt lbp (Nat.le_max_left _ _) h1
    have e2 : loop lbp (max f1 f2 + 2) m (.paren (nbody lbp e)) rest = some res :=
      mono_loop lbp (by omega) h2
    have lst : (Tok.lp :: body lbp e ++ [Tok.rp]) ++ rest = Tok.lp :: (body lbp e ++ Tok.rp :: rest) := by simp
    rw [lst]
    exact pratt_of_pfx lbp (pfx_lp lbp (primary_lp lbp e1)) e2
  · simp only [hlv, if_false] at hl ⊢
    -- mm ≤ level e
    exact h mm m rest res hm (by omega) hs hl

theorem stops_PRE (hl : ∀ k, lbp k < PRE) {mm rest} (hmm : mm ≤ PRE)
    (hs : stops lbp (mm+1) rest) : stops lbp PRE rest := by
  match rest with
  | .op k :: _ => simp only [stops]; exact hl k
  | .bang :: _ => simp only [stops, POST, PRE] at hs hmm ⊢; omega
  | [] => trivial
  | .num _ :: _ => trivial
  | .lp :: _ => trivial
  | .rp :: _ => trivial
  | .neg :: _ => trivial

theorem K'_all (hl : ∀ k, lbp k < PRE) : ∀ e, K' lbp e := by
  intro e
  induction e with
  | num n =>
    intro mm m rest res _ _ _ ⟨f0, h0⟩
    refine ⟨f0 + 3, ?_⟩
    simp only [body, nbody, List.singleton_append] at h0 ⊢
    exact pratt_of_pfx lbp (pfx_num lbp) (mono_loop lbp (by omega) h0)
  | paren e0 ih =>
    intro mm m rest res _ _ _ ⟨f2, h2⟩
    obtain ⟨f1, h1⟩ := ih 0 0 (.rp :: rest) (nbody lbp e0, .rp :: rest) (Nat.le_refl _) (Nat.zero_le _)
      (by simp [stops]) ⟨1, loop_stop lbp 0 _ (by simp [stops])⟩
    refine ⟨max f1 f2 + 3, ?_⟩
    have e1 := mono_pratt lbp (Nat.le_max_left f1 f2) h1
    simp only [nbody] at h2
    have e2 : loop lbp (max f1 f2 + 2) m (.paren (nbody lbp e0)) rest = some res :=
      mono_loop lbp (by omega) h2
    have lst : body lbp (.paren e0) ++ rest = Tok.lp :: (body lbp e0 ++ Tok.rp :: rest) := by
      simp [body]
    rw [lst]
    exact pratt_of_pfx lbp (pfx_lp lbp (primary_lp lbp e1)) e2
  | neg e0 ih =>
    intro mm m rest res hm hlv hs ⟨f2, h2⟩
    have hK := K_of_K' lbp e0 ih
    simp only [level] at hlv
    have hsP : stops lbp PRE rest := stops_PRE lbp hl hlv hs
    obtain ⟨f1, h1⟩ := hK PRE PRE rest (norm lbp PRE e0, rest) (Nat.le_refl _)
      (stops_mono lbp (by omega) hs) ⟨1, loop_stop lbp 0 _ hsP⟩
    refine ⟨max f1 f2 + 2, ?_⟩
    have e1 := mono_pratt lbp (Nat.le_max_left f1 f2) h1
    simp only [nbody] at h2
    have e2 : loop lbp (max f1 f2 + 1) m (.neg (norm lbp PRE e0)) rest = some res :=
      mono_loop lbp (by omega) h2
    have lst : body lbp (.neg e0) ++ rest = Tok.neg :: (rend lbp PRE e0 ++ rest) := by
      simp [body, rend]
    rw [lst]
    exact pratt_of_pfx lbp (pfx_neg lbp e1) e2
  | post e0 ih =>
    intro mm m rest res hm hlv hs ⟨f2, h2⟩
    have hK := K_of_K' lbp e0 ih
    simp only [level] at hlv
    simp only [nbody] at h2
    have lst : body lbp (.post e0) ++ rest = rend lbp POST e0 ++ Tok.bang :: rest := by
      simp [body, rend]
    rw [lst]
    exact hK POST m (.bang :: rest) res (by omega) (by simp [stops])
      ⟨f2 + 1, loop_bang lbp (by omega) h2⟩
  | bin k l r ihl ihr =>
    intro mm m rest res hm hlv hs ⟨f2, h2⟩
    have hKl := K_of_K' lbp l ihl
    have hKr := K_of_K' lbp r ihr
    simp only [level] at hlv
    simp only [nbody] at h2
    obtain ⟨f1, h1⟩ := hKr (lbp k + 1) (lbp k + 1) rest (norm lbp (lbp k + 1) r, rest) (Nat.le_refl _)
      (stops_mono lbp (by omega) hs)
      ⟨1, loop_stop lbp 0 _ (stops_mono lbp (by omega) hs)⟩
    have lst : body lbp (.bin k l r) ++ rest =
        rend lbp (lbp k) l ++ Tok.op k :: (rend lbp (lbp k + 1) r ++ rest) := by
      simp [body, rend]
    rw [lst]
    refine hKl (lbp k) m _ res (by omega) (by simp [stops]) ⟨max f1 f2 + 1, ?_⟩
    exact loop_op lbp (by omega) (mono_pratt lbp (Nat.le_max_left f1 f2) h1)
      (mono_loop lbp (Nat.le_max_right f1 f2) h2)

/-- Round trip: parsing the minimal-parenthesis rendering of any tree, in any context whose
    continuation cannot extend the expression, returns a tree equal to it modulo `paren`. -/
theorem roundtrip (hl : ∀ k, lbp k < PRE) (e : E) (m : Nat) (rest : List Tok)
    (hs : stops lbp m rest) :
    ∃ f e', pratt lbp f m (rend lbp m e ++ rest) = some (e', rest) ∧ strip e' = strip e := by
  obtain ⟨f, h⟩ := K_of_K' lbp e (K'_all lbp hl e) m m rest (norm lbp m e, rest) (Nat.le_refl _)
    (stops_mono lbp (by omega) hs) ⟨1, loop_stop lbp 0 _ hs⟩
  exact ⟨f, norm lbp m e, h, strip_norm lbp m e⟩
end proofs


end BlochVerif.Parse.PrattCore
