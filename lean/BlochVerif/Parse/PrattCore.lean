/-!
# The Pratt core: binary levels, a prefix operator, postfix operators (`++`, indexing, member access, calls), parentheses

An abstract copy of the loop structure of `Parser::parsePrattExpression` / `parsePrefixExpression`
/ `parsePrimary` over an abstract token alphabet: binary operator `k` has left binding power
`lbp k` and right binding power `lbp k + 1` (left-associative), the prefix operator parses its
operand at `PRE`, the postfix forms (`e!`, `e[i]`, `e.n`, `e()`, `e(a)`) bind at `POST`.  `roundtrip` says that parsing the
minimal-parenthesis rendering of *any* tree returns the tree (modulo `paren` nodes), for any table
with `lbp k < PRE < POST`.  `Props/C14.lean` instantiates it with the table regenerated from
`parser.cpp`, whose entries are checked (by `decide`) to satisfy exactly these hypotheses and the
level order of `docs/grammar.md`.  Core-only.
-/
namespace BlochVerif.Parse.PrattCore

inductive Tok | num (n : Nat) | op (k : Nat) | neg | bang | lp | rp | lb | rb | dot (n : Nat)
  deriving DecidableEq, Repr

inductive E | num (n : Nat) | bin (k : Nat) (l r : E) | neg (e : E) | post (e : E) | paren (e : E)
  | index (e i : E) | member (e : E) (n : Nat) | call0 (e : E) | call1 (e a : E)
  deriving DecidableEq, Repr

def PRE : Nat := 14
def POST : Nat := 16

section
variable (lbp : Nat → Nat)

mutual
def primary : Nat → List Tok → Option (E × List Tok)
  | 0, _ => none
  | _+1, .num n :: r => some (.num n, r)
  | f+1, .lp :: r =>
    match pratt f 0 r with
    | some (e, .rp :: r') => some (.paren e, r')
    | _ => none
  | _+1, _ => none
def pfx : Nat → List Tok → Option (E × List Tok)
  | 0, _ => none
  | f+1, .neg :: r =>
    match pratt f PRE r with
    | some (e, r') => some (.neg e, r')
    | none => none
  | f+1, ts => primary f ts
def pratt : Nat → Nat → List Tok → Option (E × List Tok)
  | 0, _, _ => none
  | f+1, m, ts =>
    match pfx f ts with
    | some (l, r) => loop f m l r
    | none => none
def loop : Nat → Nat → E → List Tok → Option (E × List Tok)
  | 0, _, _, _ => none
  | f+1, m, l, .op k :: r =>
    if lbp k < m then some (l, .op k :: r)
    else match pratt f (lbp k + 1) r with
      | some (rt, r') => loop f m (.bin k l rt) r'
      | none => none
  | f+1, m, l, .bang :: r =>
    if POST < m then some (l, .bang :: r) else loop f m (.post l) r
  | f+1, m, l, .dot n :: r =>
    if POST < m then some (l, .dot n :: r) else loop f m (.member l n) r
  | f+1, m, l, .lb :: r =>
    if POST < m then some (l, .lb :: r)
    else match pratt f 0 r with
      | some (i, .rb :: r') => loop f m (.index l i) r'
      | _ => none
  | f+1, m, l, .lp :: .rp :: r =>
    if POST < m then some (l, .lp :: .rp :: r) else loop f m (.call0 l) r
  | f+1, m, l, .lp :: r =>
    if POST < m then some (l, .lp :: r)
    else match pratt f 0 r with
      | some (a, .rp :: r') => loop f m (.call1 l a) r'
      | _ => none
  | _+1, _, l, ts => some (l, ts)
end
end

section proofs
variable (lbp : Nat → Nat)

/-! ### fuel monotonicity -/

/-- unfolding of `loop` at `( t …` when `t` is not `)` -/
theorem loop_lp_ne (f m : Nat) (l : E) (t : Tok) (rest : List Tok) (ht : t ≠ .rp) :
    loop lbp (f+1) m l (.lp :: t :: rest) =
      if POST < m then some (l, .lp :: t :: rest)
      else match pratt lbp f 0 (t :: rest) with
        | some (a, .rp :: r') => loop lbp f m (.call1 l a) r'
        | _ => none := by
  cases t <;> first | (exact absurd rfl ht) | (simp only [loop])

theorem mono_lp_case (f : Nat)
    (ih3 : ∀ m ts r, pratt lbp f m ts = some r → pratt lbp (f+1) m ts = some r)
    (ih4 : ∀ m l ts r, loop lbp f m l ts = some r → loop lbp (f+1) m l ts = some r)
    (m : Nat) (l : E) (t : Tok) (rest : List Tok) (r : E × List Tok) (ht : t ≠ .rp)
    (h : loop lbp (f+1) m l (.lp :: t :: rest) = some r) :
    loop lbp (f+1+1) m l (.lp :: t :: rest) = some r := by
  rw [loop_lp_ne lbp f m l t rest ht] at h
  rw [loop_lp_ne lbp (f+1) m l t rest ht]
  by_cases hk : POST < m
  · simpa [hk] using h
  · simp only [hk, if_false] at h ⊢
    cases hp : pratt lbp f 0 (t :: rest) with
    | none => simp [hp] at h
    | some x =>
      rw [ih3 _ _ x hp]; rw [hp] at h
      obtain ⟨a, r'⟩ := x
      match r', h with
      | .rp :: r'', h => exact ih4 _ _ _ _ h

theorem mono_all (f : Nat) :
    (∀ ts r, primary lbp f ts = some r → primary lbp (f+1) ts = some r) ∧
    (∀ ts r, pfx lbp f ts = some r → pfx lbp (f+1) ts = some r) ∧
    (∀ m ts r, pratt lbp f m ts = some r → pratt lbp (f+1) m ts = some r) ∧
    (∀ m l ts r, loop lbp f m l ts = some r → loop lbp (f+1) m l ts = some r) := by
  induction f with
  | zero => refine ⟨?_, ?_, ?_, ?_⟩ <;> intros <;> simp_all [primary, pfx, pratt, loop]
  | succ f ih =>
    obtain ⟨ih1, ih2, ih3, ih4⟩ := ih
    refine ⟨?_, ?_, ?_, ?_⟩
    · intro ts r h
      match ts with
      | [] => simp [primary] at h
      | .num n :: rest => simpa [primary] using h
      | .lp :: rest =>
        simp only [primary] at h ⊢
        cases hp : pratt lbp f 0 rest with
        | none => simp [hp] at h
        | some x =>
          rw [ih3 0 rest x hp]; rw [hp] at h; exact h
      | .op k :: rest => simp [primary] at h
      | .neg :: rest => simp [primary] at h
      | .bang :: rest => simp [primary] at h
      | .rp :: rest => simp [primary] at h
      | .lb :: rest => simp [primary] at h
      | .rb :: rest => simp [primary] at h
      | .dot _ :: rest => simp [primary] at h
    · intro ts r h
      match ts with
      | .neg :: rest =>
        simp only [pfx] at h ⊢
        cases hp : pratt lbp f PRE rest with
        | none => simp [hp] at h
        | some x => rw [ih3 _ _ x hp]; rw [hp] at h; exact h
      | [] => simp only [pfx] at h ⊢; exact ih1 _ _ h
      | .num n :: rest => simp only [pfx] at h ⊢; exact ih1 _ _ h
      | .lp :: rest => simp only [pfx] at h ⊢; exact ih1 _ _ h
      | .op k :: rest => simp only [pfx] at h ⊢; exact ih1 _ _ h
      | .bang :: rest => simp only [pfx] at h ⊢; exact ih1 _ _ h
      | .rp :: rest => simp only [pfx] at h ⊢; exact ih1 _ _ h
      | .lb :: rest => simp only [pfx] at h ⊢; exact ih1 _ _ h
      | .rb :: rest => simp only [pfx] at h ⊢; exact ih1 _ _ h
      | .dot _ :: rest => simp only [pfx] at h ⊢; exact ih1 _ _ h
    · intro m ts r h
      simp only [pratt] at h ⊢
      cases hp : pfx lbp f ts with
      | none => simp [hp] at h
      | some x =>
        rw [ih2 _ x hp]; rw [hp] at h
        exact ih4 _ _ _ _ h
    · intro m l ts r h
      match ts with
      | .op k :: rest =>
        simp only [loop] at h ⊢
        by_cases hk : lbp k < m
        · simpa [hk] using h
        · simp only [hk, if_false] at h ⊢
          cases hp : pratt lbp f (lbp k + 1) rest with
          | none => simp [hp] at h
          | some x => rw [ih3 _ _ x hp]; rw [hp] at h; exact ih4 _ _ _ _ h
      | .bang :: rest =>
        simp only [loop] at h ⊢
        by_cases hk : POST < m
        · simpa [hk] using h
        · simp only [hk, if_false] at h ⊢; exact ih4 _ _ _ _ h
      | .dot n :: rest =>
        simp only [loop] at h ⊢
        by_cases hk : POST < m
        · simpa [hk] using h
        · simp only [hk, if_false] at h ⊢; exact ih4 _ _ _ _ h
      | .lb :: rest =>
        simp only [loop] at h ⊢
        by_cases hk : POST < m
        · simpa [hk] using h
        · simp only [hk, if_false] at h ⊢
          cases hp : pratt lbp f 0 rest with
          | none => simp [hp] at h
          | some x =>
            rw [ih3 _ _ x hp]; rw [hp] at h
            obtain ⟨i, r'⟩ := x
            match r', h with
            | .rb :: r'', h => exact ih4 _ _ _ _ h
      | .lp :: .rp :: rest =>
        simp only [loop] at h ⊢
        by_cases hk : POST < m
        · simpa [hk] using h
        · simp only [hk, if_false] at h ⊢; exact ih4 _ _ _ _ h
      | [.lp] =>
        simp only [loop] at h ⊢
        by_cases hk : POST < m
        · simpa [hk] using h
        · simp only [hk, if_false] at h ⊢
          cases hp : pratt lbp f 0 [] with
          | none => simp [hp] at h
          | some x =>
            rw [ih3 _ _ x hp]; rw [hp] at h
            obtain ⟨a, r'⟩ := x
            match r', h with
            | .rp :: r'', h => exact ih4 _ _ _ _ h
      | .lp :: .num n :: rest => exact mono_lp_case lbp f ih3 ih4 m l (.num n) rest r (by intro hc; cases hc) h
      | .lp :: .op k :: rest => exact mono_lp_case lbp f ih3 ih4 m l (.op k) rest r (by intro hc; cases hc) h
      | .lp :: .neg :: rest => exact mono_lp_case lbp f ih3 ih4 m l .neg rest r (by intro hc; cases hc) h
      | .lp :: .bang :: rest => exact mono_lp_case lbp f ih3 ih4 m l .bang rest r (by intro hc; cases hc) h
      | .lp :: .lp :: rest => exact mono_lp_case lbp f ih3 ih4 m l .lp rest r (by intro hc; cases hc) h
      | .lp :: .lb :: rest => exact mono_lp_case lbp f ih3 ih4 m l .lb rest r (by intro hc; cases hc) h
      | .lp :: .rb :: rest => exact mono_lp_case lbp f ih3 ih4 m l .rb rest r (by intro hc; cases hc) h
      | .lp :: .dot n :: rest => exact mono_lp_case lbp f ih3 ih4 m l (.dot n) rest r (by intro hc; cases hc) h
      | [] => simpa [loop] using h
      | .num n :: rest => simpa [loop] using h
      | .neg :: rest => simpa [loop] using h
      | .rp :: rest => simpa [loop] using h
      | .rb :: rest => simpa [loop] using h

theorem mono_pratt {f f' m ts r} (h : f ≤ f') (hp : pratt lbp f m ts = some r) :
    pratt lbp f' m ts = some r := by
  induction h with
  | refl => exact hp
  | step _ ih => exact (mono_all lbp _).2.2.1 _ _ _ ih

theorem mono_loop {f f' m l ts r} (h : f ≤ f') (hp : loop lbp f m l ts = some r) :
    loop lbp f' m l ts = some r := by
  induction h with
  | refl => exact hp
  | step _ ih => exact (mono_all lbp _).2.2.2 _ _ _ _ ih

def stops (m : Nat) : List Tok → Prop
  | .op k :: _ => lbp k < m
  | .bang :: _ => POST < m
  | .dot _ :: _ => POST < m
  | .lb :: _ => POST < m
  | .lp :: _ => POST < m
  | _ => True

theorem stops_mono {a b ts} (h : a ≤ b) (hs : stops lbp a ts) : stops lbp b ts := by
  match ts with
  | .op k :: _ => simp only [stops] at hs ⊢; omega
  | .bang :: _ => simp only [stops] at hs ⊢; omega
  | .dot _ :: _ => simp only [stops] at hs ⊢; omega
  | .lb :: _ => simp only [stops] at hs ⊢; omega
  | .lp :: _ => simp only [stops] at hs ⊢; omega
  | [] => trivial
  | .num _ :: _ => trivial
  | .rp :: _ => trivial
  | .rb :: _ => trivial
  | .neg :: _ => trivial

theorem loop_stop {m ts} (f : Nat) (l : E) (hs : stops lbp m ts) :
    loop lbp (f+1) m l ts = some (l, ts) := by
  match ts with
  | .op k :: _ => simp only [stops] at hs; simp [loop, hs]
  | .bang :: _ => simp only [stops] at hs; simp [loop, hs]
  | .dot _ :: _ => simp only [stops] at hs; simp [loop, hs]
  | .lb :: _ => simp only [stops] at hs; simp [loop, hs]
  | .lp :: .rp :: _ => simp only [stops] at hs; simp [loop, hs]
  | [.lp] => simp only [stops] at hs; simp [loop, hs]
  | .lp :: .num _ :: _ => simp only [stops] at hs; simp [loop, hs]
  | .lp :: .op _ :: _ => simp only [stops] at hs; simp [loop, hs]
  | .lp :: .neg :: _ => simp only [stops] at hs; simp [loop, hs]
  | .lp :: .bang :: _ => simp only [stops] at hs; simp [loop, hs]
  | .lp :: .lp :: _ => simp only [stops] at hs; simp [loop, hs]
  | .lp :: .lb :: _ => simp only [stops] at hs; simp [loop, hs]
  | .lp :: .rb :: _ => simp only [stops] at hs; simp [loop, hs]
  | .lp :: .dot _ :: _ => simp only [stops] at hs; simp [loop, hs]
  | [] => simp [loop]
  | .num _ :: _ => simp [loop]
  | .rp :: _ => simp [loop]
  | .rb :: _ => simp [loop]
  | .neg :: _ => simp [loop]

def level : E → Nat
  | .num _ => 100
  | .paren _ => 100
  | .post _ => POST
  | .index _ _ => POST
  | .member _ _ => POST
  | .call0 _ => POST
  | .call1 _ _ => POST
  | .neg _ => PRE
  | .bin k _ _ => lbp k

def wrap (lv m : Nat) (ts : List Tok) : List Tok := if lv < m then .lp :: ts ++ [.rp] else ts
def nwrap (lv m : Nat) (e : E) : E := if lv < m then .paren e else e

def body : E → List Tok
  | .num n => [.num n]
  | .paren e => .lp :: body e ++ [.rp]
  | .neg e => .neg :: wrap (level lbp e) PRE (body e)
  | .post e => wrap (level lbp e) POST (body e) ++ [.bang]
  | .member e n => wrap (level lbp e) POST (body e) ++ [.dot n]
  | .call0 e => wrap (level lbp e) POST (body e) ++ [.lp, .rp]
  | .index e i => wrap (level lbp e) POST (body e) ++ .lb :: body i ++ [.rb]
  | .call1 e a => wrap (level lbp e) POST (body e) ++ .lp :: body a ++ [.rp]
  | .bin k l r => wrap (level lbp l) (lbp k) (body l) ++ .op k :: wrap (level lbp r) (lbp k + 1) (body r)

def nbody : E → E
  | .num n => .num n
  | .paren e => .paren (nbody e)
  | .neg e => .neg (nwrap (level lbp e) PRE (nbody e))
  | .post e => .post (nwrap (level lbp e) POST (nbody e))
  | .member e n => .member (nwrap (level lbp e) POST (nbody e)) n
  | .call0 e => .call0 (nwrap (level lbp e) POST (nbody e))
  | .index e i => .index (nwrap (level lbp e) POST (nbody e)) (nbody i)
  | .call1 e a => .call1 (nwrap (level lbp e) POST (nbody e)) (nbody a)
  | .bin k l r => .bin k (nwrap (level lbp l) (lbp k) (nbody l)) (nwrap (level lbp r) (lbp k + 1) (nbody r))

def rend (m : Nat) (e : E) : List Tok := wrap (level lbp e) m (body lbp e)
def norm (m : Nat) (e : E) : E := nwrap (level lbp e) m (nbody lbp e)

def strip : E → E
  | .num n => .num n
  | .paren e => strip e
  | .neg e => .neg (strip e)
  | .post e => .post (strip e)
  | .member e n => .member (strip e) n
  | .call0 e => .call0 (strip e)
  | .index e i => .index (strip e) (strip i)
  | .call1 e a => .call1 (strip e) (strip a)
  | .bin k l r => .bin k (strip l) (strip r)

theorem strip_nwrap (lv m e) : strip (nwrap lv m e) = strip e := by
  unfold nwrap; split <;> simp [strip]

theorem strip_nbody (e : E) : strip (nbody lbp e) = strip e := by
  induction e with
  | num n => simp [nbody, strip]
  | paren e ih => simp [nbody, strip, ih]
  | neg e ih => simp [nbody, strip, strip_nwrap, ih]
  | post e ih => simp [nbody, strip, strip_nwrap, ih]
  | member e n ih => simp [nbody, strip, strip_nwrap, ih]
  | call0 e ih => simp [nbody, strip, strip_nwrap, ih]
  | index e i ihe ihi => simp [nbody, strip, strip_nwrap, ihe, ihi]
  | call1 e a ihe iha => simp [nbody, strip, strip_nwrap, ihe, iha]
  | bin k l r ihl ihr => simp [nbody, strip, strip_nwrap, ihl, ihr]

theorem strip_norm (m e) : strip (norm lbp m e) = strip e := by
  simp [norm, strip_nwrap, strip_nbody]

theorem pratt_of_pfx {f m ts l r res} (h1 : pfx lbp f ts = some (l, r))
    (h2 : loop lbp f m l r = some res) : pratt lbp (f+1) m ts = some res := by
  simp [pratt, h1, h2]

theorem pfx_neg {f r e r'} (h : pratt lbp f PRE r = some (e, r')) :
    pfx lbp (f+1) (.neg :: r) = some (.neg e, r') := by
  simp [pfx, h]

theorem pfx_lp {f r x} (h : primary lbp f (.lp :: r) = some x) :
    pfx lbp (f+1) (.lp :: r) = some x := by
  simp [pfx, h]

theorem pfx_num {f n r} : pfx lbp (f+2) (.num n :: r) = some (.num n, r) := by
  simp [pfx, primary]

theorem primary_lp {f r e r'} (h : pratt lbp f 0 r = some (e, .rp :: r')) :
    primary lbp (f+1) (.lp :: r) = some (.paren e, r') := by
  simp [primary, h]

theorem loop_op {f m l k r rt r' res} (hk : ¬ lbp k < m)
    (h1 : pratt lbp f (lbp k + 1) r = some (rt, r'))
    (h2 : loop lbp f m (.bin k l rt) r' = some res) :
    loop lbp (f+1) m l (.op k :: r) = some res := by
  simp [loop, hk, h1, h2]

theorem loop_bang {f m l r res} (hk : ¬ POST < m)
    (h2 : loop lbp f m (.post l) r = some res) :
    loop lbp (f+1) m l (.bang :: r) = some res := by
  simp [loop, hk, h2]

theorem loop_dot {f m l n r res} (hk : ¬ POST < m)
    (h2 : loop lbp f m (.member l n) r = some res) :
    loop lbp (f+1) m l (.dot n :: r) = some res := by
  simp [loop, hk, h2]

theorem loop_call0 {f m l r res} (hk : ¬ POST < m)
    (h2 : loop lbp f m (.call0 l) r = some res) :
    loop lbp (f+1) m l (.lp :: .rp :: r) = some res := by
  simp [loop, hk, h2]

theorem loop_lb {f m l r i r' res} (hk : ¬ POST < m)
    (h1 : pratt lbp f 0 r = some (i, .rb :: r'))
    (h2 : loop lbp f m (.index l i) r' = some res) :
    loop lbp (f+1) m l (.lb :: r) = some res := by
  simp [loop, hk, h1, h2]

theorem loop_call1 {f m l t r a r' res} (ht : t ≠ .rp) (hk : ¬ POST < m)
    (h1 : pratt lbp f 0 (t :: r) = some (a, .rp :: r'))
    (h2 : loop lbp f m (.call1 l a) r' = some res) :
    loop lbp (f+1) m l (.lp :: t :: r) = some res := by
  rw [loop_lp_ne lbp f m l t r ht]
  simp [hk, h1, h2]

/-- a rendering never starts with a closing parenthesis -/
theorem body_head (e : E) : ∃ t ts, body lbp e = t :: ts ∧ t ≠ .rp := by
  have wrapHead : ∀ (lv m : Nat) (b : List Tok), (∃ t ts, b = t :: ts ∧ t ≠ Tok.rp) →
      ∃ t ts, wrap lv m b = t :: ts ∧ t ≠ Tok.rp := by
    intro lv m b hb
    unfold wrap
    split
    · exact ⟨.lp, _, rfl, by intro h; cases h⟩
    · exact hb
  have appHead : ∀ (a b : List Tok), (∃ t ts, a = t :: ts ∧ t ≠ Tok.rp) → ∃ t ts, a ++ b = t :: ts ∧ t ≠ Tok.rp := by
    intro a b ⟨t, ts, h1, h2⟩
    exact ⟨t, ts ++ b, by simp [h1], h2⟩
  induction e with
  | num n => exact ⟨.num n, [], rfl, by intro h; cases h⟩
  | paren e _ => exact ⟨.lp, _, rfl, by intro h; cases h⟩
  | neg e _ => exact ⟨.neg, _, rfl, by intro h; cases h⟩
  | post e ih => simp only [body]; exact appHead _ _ (wrapHead _ _ _ ih)
  | member e n ih => simp only [body]; exact appHead _ _ (wrapHead _ _ _ ih)
  | call0 e ih => simp only [body]; exact appHead _ _ (wrapHead _ _ _ ih)
  | index e i ihe _ => simp only [body]; exact appHead _ _ (appHead _ _ (wrapHead _ _ _ ihe))
  | call1 e a ihe _ => simp only [body]; exact appHead _ _ (appHead _ _ (wrapHead _ _ _ ihe))
  | bin k l r ihl _ => simp only [body]; exact appHead _ _ (wrapHead _ _ _ ihl)

/-- the "continue the loop" statement for the un-parenthesised rendering -/
def K' (e : E) : Prop :=
  ∀ mm m rest res, m ≤ mm → mm ≤ level lbp e → stops lbp (mm+1) rest →
    (∃ f, loop lbp f m (nbody lbp e) rest = some res) →
    ∃ f, pratt lbp f m (body lbp e ++ rest) = some res

def K (e : E) : Prop :=
  ∀ mm m rest res, m ≤ mm → stops lbp (mm+1) rest →
    (∃ f, loop lbp f m (norm lbp mm e) rest = some res) →
    ∃ f, pratt lbp f m (rend lbp mm e ++ rest) = some res

theorem K_of_K' (e : E) (h : K' lbp e) : K lbp e := by
  intro mm m rest res hm hs hl
  unfold rend norm wrap nwrap at *
  by_cases hlv : level lbp e < mm
  · simp only [hlv, if_true] at hl ⊢
    -- inner: parse body at 0 up to the closing paren
    obtain ⟨f1, h1⟩ := h 0 0 (.rp :: rest) (nbody lbp e, .rp :: rest) (Nat.le_refl _) (Nat.zero_le _)
      (by simp [stops]) ⟨1, loop_stop lbp 0 _ (by simp [stops])⟩
    obtain ⟨f2, h2⟩ := hl
    refine ⟨max f1 f2 + 3, ?_⟩
    have e1 : pratt lbp (max f1 f2) 0 (body lbp e ++ .rp :: rest) = some (nbody lbp e, .rp :: rest) :=
      mono_pratt lbp (Nat.le_max_left _ _) h1
    have e2 : loop lbp (max f1 f2 + 2) m (.paren (nbody lbp e)) rest = some res :=
      mono_loop lbp (by omega) h2
    have lst : (Tok.lp :: body lbp e ++ [Tok.rp]) ++ rest = Tok.lp :: (body lbp e ++ Tok.rp :: rest) := by simp
    rw [lst]
    exact pratt_of_pfx lbp (pfx_lp lbp (primary_lp lbp e1)) e2
  · simp only [hlv, if_false] at hl ⊢
    -- mm ≤ level e
    exact h mm m rest res hm (by omega) hs hl

theorem stops_PRE (hl : ∀ k, lbp k < PRE) {mm rest} (hmm : mm ≤ PRE)
    (hs : stops lbp (mm+1) rest) : stops lbp PRE rest := by
  match rest with
  | .op k :: _ => simp only [stops]; exact hl k
  | .bang :: _ => simp only [stops, POST, PRE] at hs hmm ⊢; omega
  | .dot _ :: _ => simp only [stops, POST, PRE] at hs hmm ⊢; omega
  | .lb :: _ => simp only [stops, POST, PRE] at hs hmm ⊢; omega
  | .lp :: _ => simp only [stops, POST, PRE] at hs hmm ⊢; omega
  | [] => trivial
  | .num _ :: _ => trivial
  | .rp :: _ => trivial
  | .rb :: _ => trivial
  | .neg :: _ => trivial

theorem K'_all (hl : ∀ k, lbp k < PRE) : ∀ e, K' lbp e := by
  intro e
  induction e with
  | num n =>
    intro mm m rest res _ _ _ ⟨f0, h0⟩
    refine ⟨f0 + 3, ?_⟩
    simp only [body, nbody, List.singleton_append] at h0 ⊢
    exact pratt_of_pfx lbp (pfx_num lbp) (mono_loop lbp (by omega) h0)
  | paren e0 ih =>
    intro mm m rest res _ _ _ ⟨f2, h2⟩
    obtain ⟨f1, h1⟩ := ih 0 0 (.rp :: rest) (nbody lbp e0, .rp :: rest) (Nat.le_refl _) (Nat.zero_le _)
      (by simp [stops]) ⟨1, loop_stop lbp 0 _ (by simp [stops])⟩
    refine ⟨max f1 f2 + 3, ?_⟩
    have e1 := mono_pratt lbp (Nat.le_max_left f1 f2) h1
    simp only [nbody] at h2
    have e2 : loop lbp (max f1 f2 + 2) m (.paren (nbody lbp e0)) rest = some res :=
      mono_loop lbp (by omega) h2
    have lst : body lbp (.paren e0) ++ rest = Tok.lp :: (body lbp e0 ++ Tok.rp :: rest) := by
      simp [body]
    rw [lst]
    exact pratt_of_pfx lbp (pfx_lp lbp (primary_lp lbp e1)) e2
  | neg e0 ih =>
    intro mm m rest res hm hlv hs ⟨f2, h2⟩
    have hK := K_of_K' lbp e0 ih
    simp only [level] at hlv
    have hsP : stops lbp PRE rest := stops_PRE lbp hl hlv hs
    obtain ⟨f1, h1⟩ := hK PRE PRE rest (norm lbp PRE e0, rest) (Nat.le_refl _)
      (stops_mono lbp (by omega) hs) ⟨1, loop_stop lbp 0 _ hsP⟩
    refine ⟨max f1 f2 + 2, ?_⟩
    have e1 := mono_pratt lbp (Nat.le_max_left f1 f2) h1
    simp only [nbody] at h2
    have e2 : loop lbp (max f1 f2 + 1) m (.neg (norm lbp PRE e0)) rest = some res :=
      mono_loop lbp (by omega) h2
    have lst : body lbp (.neg e0) ++ rest = Tok.neg :: (rend lbp PRE e0 ++ rest) := by
      simp [body, rend]
    rw [lst]
    exact pratt_of_pfx lbp (pfx_neg lbp e1) e2
  | post e0 ih =>
    intro mm m rest res hm hlv hs ⟨f2, h2⟩
    have hK := K_of_K' lbp e0 ih
    simp only [level] at hlv
    simp only [nbody] at h2
    have lst : body lbp (.post e0) ++ rest = rend lbp POST e0 ++ Tok.bang :: rest := by
      simp [body, rend]
    rw [lst]
    exact hK POST m (.bang :: rest) res (by omega) (by simp [stops])
      ⟨f2 + 1, loop_bang lbp (by omega) h2⟩
  | member e0 n ih =>
    intro mm m rest res hm hlv hs ⟨f2, h2⟩
    have hK := K_of_K' lbp e0 ih
    simp only [level] at hlv
    simp only [nbody] at h2
    have lst : body lbp (.member e0 n) ++ rest = rend lbp POST e0 ++ Tok.dot n :: rest := by
      simp [body, rend]
    rw [lst]
    exact hK POST m (.dot n :: rest) res (by omega) (by simp [stops])
      ⟨f2 + 1, loop_dot lbp (by omega) h2⟩
  | call0 e0 ih =>
    intro mm m rest res hm hlv hs ⟨f2, h2⟩
    have hK := K_of_K' lbp e0 ih
    simp only [level] at hlv
    simp only [nbody] at h2
    have lst : body lbp (.call0 e0) ++ rest = rend lbp POST e0 ++ Tok.lp :: Tok.rp :: rest := by
      simp [body, rend]
    rw [lst]
    exact hK POST m (.lp :: .rp :: rest) res (by omega) (by simp [stops])
      ⟨f2 + 1, loop_call0 lbp (by omega) h2⟩
  | index e0 i ihe ihi =>
    intro mm m rest res hm hlv hs ⟨f2, h2⟩
    have hK := K_of_K' lbp e0 ihe
    simp only [level] at hlv
    simp only [nbody] at h2
    obtain ⟨f1, h1⟩ := ihi 0 0 (.rb :: rest) (nbody lbp i, .rb :: rest) (Nat.le_refl _) (Nat.zero_le _)
      (by simp [stops]) ⟨1, loop_stop lbp 0 _ (by simp [stops])⟩
    have lst : body lbp (.index e0 i) ++ rest = rend lbp POST e0 ++ Tok.lb :: (body lbp i ++ Tok.rb :: rest) := by
      simp [body, rend]
    rw [lst]
    refine hK POST m _ res (by omega) (by simp [stops]) ⟨max f1 f2 + 1, ?_⟩
    exact loop_lb lbp (by omega) (mono_pratt lbp (Nat.le_max_left f1 f2) h1)
      (mono_loop lbp (Nat.le_max_right f1 f2) h2)
  | call1 e0 a ihe iha =>
    intro mm m rest res hm hlv hs ⟨f2, h2⟩
    have hK := K_of_K' lbp e0 ihe
    simp only [level] at hlv
    simp only [nbody] at h2
    obtain ⟨f1, h1⟩ := iha 0 0 (.rp :: rest) (nbody lbp a, .rp :: rest) (Nat.le_refl _) (Nat.zero_le _)
      (by simp [stops]) ⟨1, loop_stop lbp 0 _ (by simp [stops])⟩
    obtain ⟨t, ts, hb, hne⟩ := body_head lbp a
    have lst : body lbp (.call1 e0 a) ++ rest = rend lbp POST e0 ++ Tok.lp :: t :: (ts ++ Tok.rp :: rest) := by
      simp [body, rend, hb]
    rw [lst]
    rw [hb] at h1
    refine hK POST m _ res (by omega) (by simp [stops]) ⟨max f1 f2 + 1, ?_⟩
    exact loop_call1 lbp hne (by omega) (by simpa using mono_pratt lbp (Nat.le_max_left f1 f2) h1)
      (mono_loop lbp (Nat.le_max_right f1 f2) h2)
  | bin k l r ihl ihr =>
    intro mm m rest res hm hlv hs ⟨f2, h2⟩
    have hKl := K_of_K' lbp l ihl
    have hKr := K_of_K' lbp r ihr
    simp only [level] at hlv
    simp only [nbody] at h2
    obtain ⟨f1, h1⟩ := hKr (lbp k + 1) (lbp k + 1) rest (norm lbp (lbp k + 1) r, rest) (Nat.le_refl _)
      (stops_mono lbp (by omega) hs)
      ⟨1, loop_stop lbp 0 _ (stops_mono lbp (by omega) hs)⟩
    have lst : body lbp (.bin k l r) ++ rest =
        rend lbp (lbp k) l ++ Tok.op k :: (rend lbp (lbp k + 1) r ++ rest) := by
      simp [body, rend]
    rw [lst]
    refine hKl (lbp k) m _ res (by omega) (by simp [stops]) ⟨max f1 f2 + 1, ?_⟩
    exact loop_op lbp (by omega) (mono_pratt lbp (Nat.le_max_left f1 f2) h1)
      (mono_loop lbp (Nat.le_max_right f1 f2) h2)

/-- Round trip: parsing the minimal-parenthesis rendering of any tree, in any context whose
    continuation cannot extend the expression, returns a tree equal to it modulo `paren`. -/
theorem roundtrip (hl : ∀ k, lbp k < PRE) (e : E) (m : Nat) (rest : List Tok)
    (hs : stops lbp m rest) :
    ∃ f e', pratt lbp f m (rend lbp m e ++ rest) = some (e', rest) ∧ strip e' = strip e := by
  obtain ⟨f, h⟩ := K_of_K' lbp e (K'_all lbp hl e) m m rest (norm lbp m e, rest) (Nat.le_refl _)
    (stops_mono lbp (by omega) hs) ⟨1, loop_stop lbp 0 _ hs⟩
  exact ⟨f, norm lbp m e, h, strip_norm lbp m e⟩
end proofs


end BlochVerif.Parse.PrattCore
