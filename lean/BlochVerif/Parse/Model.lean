import BlochVerif.Lex.Model
import BlochVerif.Parse.Ast
/-!
# Model of `src/bloch/compiler/parser/parser.cpp`

One Lean function per C++ member function, same order of checks (so the *position* of a parse
error is the same token).  The token vector is a `List Token` ending in `Eof`; "`m_current`" is
the remaining list.  Every function that can recurse takes a `fuel` argument that decreases on
each nested call and on each loop iteration (`outOfFuel` is a distinct error that the driver
reports as such; `C·(tokens+1)` units always suffice).  The Pratt binding powers come from a
`Tables` value, which the driver fills from the table regenerated from the source on every run.
Core-only.
-/
namespace BlochVerif.Parse
open BlochVerif.Lex

structure PErr where
  line : Nat
  col : Nat
  msg : String
  outOfFuel : Bool := false
deriving Repr, DecidableEq

structure Tables where
  /-- `(lbp, rbp, isPostfix)` for the token types handled by the Pratt loop -/
  infixBinding : TokenType → Option (Nat × Nat × Bool)
  prefixBp : Nat

/-- `m_tokens`/`m_current` (the remaining tokens) and `m_depth` -/
structure PState where
  toks : List Token
  depth : Nat := 0

abbrev PM := StateT PState (Except PErr)

/-- `kMaxNestingDepth` -/
def maxNestingDepth : Nat := 256

def eofTok : Token := ⟨.Eof, [], ⟨0, 0⟩⟩

def tstr (t : Token) : String := String.ofList t.text
def tpos (t : Token) : P := ⟨t.pos.line, t.pos.col⟩

/-- `peek()` -/
def peek : PM Token := do
  match (← get).toks with
  | t :: _ => pure t
  | [] => pure eofTok

/-- token after the current one (`m_tokens[m_current + 1]`), if any -/
def peekNextTy : PM (Option TokenType) := do
  match (← get).toks with
  | _ :: t :: _ => pure (some t.type)
  | _ => pure none

def isAtEnd : PM Bool := do pure ((← peek).type == .Eof)

/-- `advance()`: does not move past `Eof`; returns the token that was current -/
def advance : PM Token := do
  let t ← peek
  if t.type == .Eof then pure t
  else
    modify (fun s => { s with toks := s.toks.drop 1 })
    pure t

def check (ty : TokenType) : PM Bool := do
  let t ← peek
  pure (t.type != .Eof && t.type == ty)

def checkNext (ty : TokenType) : PM Bool := do pure ((← peekNextTy) == some ty)

def reportError {α : Type} (msg : String) : PM α := do
  let t ← peek
  throw ⟨t.pos.line, t.pos.col, msg, false⟩

/-- `DepthGuard`: one level deeper for the duration of `act`; deeper than `kMaxNestingDepth` is a parse error at
the current token -/
def withDepth {α : Type} (act : PM α) : PM α := do
  let s ← get
  if s.depth + 1 > maxNestingDepth then reportError "nesting too deep"
  set { s with depth := s.depth + 1 }
  let r ← act
  modify (fun s' => { s' with depth := s'.depth - 1 })
  pure r

def errorAt {α : Type} (p : P) (msg : String) : PM α := throw ⟨p.line, p.col, msg, false⟩

def outOfFuel {α : Type} : PM α := throw ⟨0, 0, "out of fuel", true⟩

def matchTok (ty : TokenType) : PM Bool := do
  if (← check ty) then
    let _ ← advance
    pure true
  else pure false

def expect (ty : TokenType) (msg : String) : PM Token := do
  if (← check ty) then advance else reportError msg

def checkAny (tys : List TokenType) : PM Bool := do
  let t ← peek
  pure (t.type != .Eof && tys.contains t.type)

def primTypeToks : List TokenType := [.Int, .Long, .Float, .Char, .String, .Bit, .Qubit, .Boolean]

/-! ### `isTypeAhead` (pure lookahead over the remaining tokens) -/

/-- skip `. Identifier` pairs after an identifier: returns the list starting at the last name -/
def skipQualifiers : List Token → List Token
  | a :: b :: c :: rest =>
    if b.type == .Dot && c.type == .Identifier then skipQualifiers (c :: rest) else a :: b :: c :: rest
  | ts => ts
termination_by ts => ts.length

/-- scan for the `>` matching the `<` at the head; returns the list starting *at* that `>` -/
def canAppearInTypeArgs (t : TokenType) : Bool :=
  t == .Identifier || t == .Dot || t == .Comma || t == .Less || t == .Greater || t == .LBracket || t == .RBracket ||
  t == .IntegerLiteral || primTypeToks.contains t

def skipToMatchingGreater : Nat → List Token → Option (List Token)
  | _, [] => none
  | depth, t :: rest =>
    if !canAppearInTypeArgs t.type then none
    else if t.type == .Less then skipToMatchingGreater (depth + 1) rest
    else if t.type == .Greater then
      if depth = 1 then some (t :: rest) else skipToMatchingGreater (depth - 1) rest
    else skipToMatchingGreater depth rest

/-- scan for the next `]`; `none` if a `;` or `Eof` comes first or the list ends -/
def scanToRBracket : List Token → Option (List Token)
  | [] => none
  | t :: rest =>
    if t.type == .RBracket then some (t :: rest)
    else if t.type == .Semicolon || t.type == .Eof then none
    else scanToRBracket rest

def isTypeAheadToks (ts : List Token) : Bool :=
  match ts with
  | [] => false
  | t :: _ =>
    if t.type == .Eof then false
    else if (TokenType.Void :: primTypeToks).contains t.type then true
    else if t.type != .Identifier then false
    else
      -- `idx` points at the last identifier of the qualified name
      let atName := skipQualifiers ts
      -- skip generic arguments: if the next token is `<` and a matching `>` exists, move to it
      let atEnd : List Token :=
        match atName with
        | n :: lt :: rest =>
          if lt.type == .Less then
            match skipToMatchingGreater 0 (lt :: rest) with
            | some g => g
            | none => n :: lt :: rest
          else n :: lt :: rest
        | other => other
      match atEnd with
      | _ :: after :: rest =>
        if after.type == .Identifier then true
        else if after.type == .LBracket then
          match scanToRBracket rest with
          | some (_ :: nxt :: _) => nxt.type == .Identifier
          | _ => false
        else false
      | _ => false

def isTypeAhead : PM Bool := do pure (isTypeAheadToks (← get).toks)

def checkFunctionAnnotation : PM Bool := do
  if !(← check .At) then pure false
  else pure ((← checkNext .Quantum) || (← checkNext .Shots))

/-! ### annotations, names -/

def parseQualifiedNameFrom (fuel : Nat) (acc : List String) : PM (List String) :=
  match fuel with
  | 0 => outOfFuel
  | fuel + 1 => do
    if (← matchTok .Dot) then
      let part ← expect .Identifier "Expected identifier after '.'"
      parseQualifiedNameFrom fuel (acc ++ [tstr part])
    else pure acc

def parseQualifiedName (fuel : Nat) : PM (List String) := do
  let first ← expect .Identifier "Expected identifier"
  parseQualifiedNameFrom fuel [tstr first]

def parseVariableAnnotation : PM Ann := do
  let _ ← expect .At "Expected '@' to begin annotation"
  if !(← check .Tracked) then
    let bad ← peek
    reportError ("\"@" ++ tstr bad ++ "\" is not a valid Bloch variable annotation")
  let t ← advance
  pure { name := tstr t, isVariable := true }

def parseFunctionAnnotation : PM Ann := do
  let _ ← expect .At "Expected '@' to begin annotation"
  if !((← check .Quantum) || (← check .Shots)) then
    let bad ← peek
    reportError ("\"@" ++ tstr bad ++ "\" is not a valid Bloch function/method annotation")
  let t ← advance
  let mut value := ""
  if t.type == .Shots then
    let _ ← expect .LParen "Expected opening bracket '('"
    let n ← expect .IntegerLiteral "Number of shots must be an integer"
    let _ ← expect .RParen "Expected closing bracket ')'"
    value := tstr n
  pure { name := tstr t, value := value, isFunction := true }

def parseAnnotations (fuel : Nat) (acc : List Ann) : PM (List Ann) :=
  match fuel with
  | 0 => outOfFuel
  | fuel + 1 => do
    if (← check .At) then
      let a ← if (← checkNext .Quantum) then parseFunctionAnnotation else parseVariableAnnotation
      parseAnnotations fuel (acc ++ [a])
    else pure acc

def parseVisibility : PM Vis := do
  if (← matchTok .Public) then pure .pub
  else if (← matchTok .Private) then pure .priv
  else if (← matchTok .Protected) then pure .prot
  else pure .pub

/-- `std::stoi` on a digit string: `none` when it does not fit an `int` -/
def stoi? (s : String) : Option Int :=
  match s.toNat? with
  | some n => if n ≤ 2147483647 then some n else none
  | none => none

def litTypeOf : TokenType → String
  | .IntegerLiteral => "int" | .LongLiteral => "long" | .FloatLiteral => "float"
  | .BitLiteral => "bit" | .CharLiteral => "char" | .True => "boolean" | .False => "boolean"
  | .StringLiteral => "string" | _ => ""

/-- the constant-negative-index guard of the index postfix -/
def negativeConstIndex : Expr → Bool
  | .lit v "int" _ => match stoi? v with | some n => n < 0 | none => false
  | .un "-" (.lit v "int" _) _ => match stoi? v with | some n => n > 0 | none => false
  | _ => false

mutual

/-- `parseType` -/
def parseType (tb : Tables) (fuel : Nat) (allowEmptyArgs : Bool) : PM Ty :=
  match fuel with
  | 0 => outOfFuel
  | fuel + 1 => withDepth do
    let base : Ty ←
      if (← check .Void) then do
        let _ ← advance
        pure Ty.void
      else if (← checkAny primTypeToks) then do
        let t ← advance
        pure (Ty.prim (tstr t))
      else if (← check .Identifier) then do
        let parts ← parseQualifiedName fuel
        if (← matchTok .Less) then
          let args ← parseTypeArgumentList tb fuel allowEmptyArgs
          pure (Ty.named parts args true)
        else pure (Ty.named parts [] false)
      else reportError "Expected type"
    parseArraySuffixes tb fuel 0 base

/-- the `while (match(LBracket))` loop of `parseType` -/
def parseArraySuffixes (tb : Tables) (fuel : Nat) (dims : Nat) (base : Ty) : PM Ty :=
  match fuel with
  | 0 => outOfFuel
  | fuel + 1 => do
    if (← matchTok .LBracket) then
      -- every `[...]` wraps the type once more: a run of brackets counts as nesting
      let dims := dims + 1
      if (← get).depth + dims > maxNestingDepth then reportError "nesting too deep"
      let mut size : Int := -1
      let mut sizeExpr : Option Expr := none
      if !(← check .RBracket) then
        if (← check .IntegerLiteral) then
          let st ← advance
          match stoi? (tstr st) with
          | some n => size := n
          | none => reportError "Invalid integer size in array type"
        else
          sizeExpr := some (← parseExpression tb fuel)
      let _ ← expect .RBracket "Expected ']' after '[' in array type"
      match base with
      | .void => reportError "array element type cannot be 'void'"
      | _ => pure ()
      parseArraySuffixes tb fuel dims (Ty.array base size sizeExpr)
    else pure base

def parseTypeArgumentList (tb : Tables) (fuel : Nat) (allowEmpty : Bool) : PM (List Ty) :=
  match fuel with
  | 0 => outOfFuel
  | fuel + 1 => do
    if (← check .Greater) then
      if !allowEmpty then reportError "Expected type argument before '>'"
      let _ ← advance
      pure []
    else
      let args ← parseTypeArgsLoop tb fuel []
      let _ ← expect .Greater "Expected '>' after type arguments"
      pure args

def parseTypeArgsLoop (tb : Tables) (fuel : Nat) (acc : List Ty) : PM (List Ty) :=
  match fuel with
  | 0 => outOfFuel
  | fuel + 1 => do
    let t ← parseType tb fuel false
    if (← matchTok .Comma) then parseTypeArgsLoop tb fuel (acc ++ [t]) else pure (acc ++ [t])

/-- `parseExpression` = `parseAssignmentExpression` -/
def parseExpression (tb : Tables) (fuel : Nat) : PM Expr :=
  match fuel with
  | 0 => outOfFuel
  | fuel + 1 => do
    let left ← parsePratt tb fuel 0
    if (← matchTok .Equals) then
      let value ← withDepth (parseExpression tb fuel)
      match left with
      | .var name p => pure (.assign name value p)
      | .index coll idx p => pure (.arrAssign coll idx value p)
      | .member obj name p => pure (.memberAssign obj name value p)
      | _ => reportError "Invalid assignment target"
    else pure left

/-- `parsePrattExpression(minBp)` -/
def parsePratt (tb : Tables) (fuel : Nat) (minBp : Nat) : PM Expr :=
  match fuel with
  | 0 => outOfFuel
  | fuel + 1 => withDepth do
    let left ← parsePrefix tb fuel
    prattLoop tb fuel minBp 0 left

/-- the `while (true)` loop of `parsePrattExpression` -/
def prattLoop (tb : Tables) (fuel : Nat) (minBp : Nat) (chain : Nat) (left : Expr) : PM Expr :=
  match fuel with
  | 0 => outOfFuel
  | fuel + 1 => do
    let tok ← peek
    match tb.infixBinding tok.type with
    | none => pure left
    | some (lbp, rbp, isPostfix) =>
      if lbp < minBp then pure left
      else
        -- every operator applied in this loop puts the tree built so far one level deeper
        let chain := chain + 1
        if (← get).depth + chain > maxNestingDepth then reportError "nesting too deep"
        let _ ← advance
        if isPostfix then
          if tok.type == .LParen then
            let args ← if (← check .RParen) then pure [] else parseExprList tb fuel []
            let _ ← expect .RParen "Expected ')' after arguments"
            prattLoop tb fuel minBp chain (.call left args (exprPos left))
          else if tok.type == .LBracket then
            let idx ← parseExpression tb fuel
            if negativeConstIndex idx then errorAt (tpos tok) "array index must be non-negative"
            let _ ← expect .RBracket "Expected ']' after index expression"
            prattLoop tb fuel minBp chain (.index left idx (tpos tok))
          else if tok.type == .Dot then
            let m ← expect .Identifier "Expected member name after '.'"
            prattLoop tb fuel minBp chain (.member left (tstr m) (tpos tok))
          else if tok.type == .PlusPlus || tok.type == .MinusMinus then
            prattLoop tb fuel minBp chain (.postfix (tstr tok) left (tpos tok))
          else
            -- a postfix-kind entry the switch does not handle falls through to the infix code
            let right ← parsePratt tb fuel rbp
            prattLoop tb fuel minBp chain (.bin (tstr tok) left right (tpos tok))
        else
          let right ← parsePratt tb fuel rbp
          prattLoop tb fuel minBp chain (.bin (tstr tok) left right (tpos tok))

/-- `do { args.push_back(parseExpression()); } while (match(Comma));` -/
def parseExprList (tb : Tables) (fuel : Nat) (acc : List Expr) : PM (List Expr) :=
  match fuel with
  | 0 => outOfFuel
  | fuel + 1 => do
    let e ← parseExpression tb fuel
    if (← matchTok .Comma) then parseExprList tb fuel (acc ++ [e]) else pure (acc ++ [e])

/-- `parsePrefixExpression` -/
def parsePrefix (tb : Tables) (fuel : Nat) : PM Expr :=
  match fuel with
  | 0 => outOfFuel
  | fuel + 1 => do
    let tok ← peek
    if tok.type == .Minus || tok.type == .Bang || tok.type == .Tilde then
      let _ ← advance
      let right ← parsePratt tb fuel tb.prefixBp
      pure (.un (tstr tok) right (tpos tok))
    else parsePrimary tb fuel

/-- `parsePrimary` -/
def parsePrimary (tb : Tables) (fuel : Nat) : PM Expr :=
  match fuel with
  | 0 => outOfFuel
  | fuel + 1 => do
    if (← checkAny [.IntegerLiteral, .LongLiteral, .FloatLiteral, .BitLiteral, .StringLiteral,
        .CharLiteral, .True, .False]) then
      let t ← advance
      pure (.lit (tstr t) (litTypeOf t.type) (tpos t))
    else if (← check .Null) then
      let t ← advance
      pure (.null (tpos t))
    else if (← check .Measure) then
      let t ← advance
      let target ← parseExpression tb fuel
      pure (.measure target (tpos t))
    else if (← check .This) then
      let t ← advance
      pure (.this (tpos t))
    else if (← check .Super) then
      let t ← advance
      pure (.super (tpos t))
    else if (← check .New) then
      let t ← advance
      let ty ← parseType tb fuel true
      let _ ← expect .LParen "Expected '(' after type in 'new' expression"
      let args ← if (← check .RParen) then pure [] else parseExprList tb fuel []
      let _ ← expect .RParen "Expected ')' after arguments"
      pure (.new ty args (tpos t))
    else if (← check .Identifier) then
      let t ← advance
      pure (.var (tstr t) (tpos t))
    else if (← check .LBrace) then
      let t ← advance
      let elems ← if (← check .RBrace) then pure [] else parseExprList tb fuel []
      let _ ← expect .RBrace "Expected '}' after array literal"
      pure (.arrLit elems (tpos t))
    else if (← check .LParen) then
      let t ← advance
      if (← isTypeAhead) then
        let ty ← parseType tb fuel false
        let _ ← expect .RParen "Expected ')' after type in cast expression"
        let operand ← parsePratt tb fuel tb.prefixBp
        pure (.cast ty operand (tpos t))
      else
        let e ← parseExpression tb fuel
        let _ ← expect .RParen "Expected ')' after expression"
        pure (.paren e (tpos t))
    else reportError "Expected expression"

end

/-! ### statements -/

def annsTracked (anns : List Ann) : Bool := anns.any (fun a => a.name == "tracked")

/-- the `while (match(Comma))` loop of `parseVariableDeclaration`: extra qubit declarations -/
def parseExtraDecls (fuel : Nat) (allowMultiple isQubit hasInit isFinal : Bool) (anns : List Ann)
    (ty : Ty) (acc : List Stmt) : PM (List Stmt) :=
  match fuel with
  | 0 => outOfFuel
  | fuel + 1 => do
    if (← matchTok .Comma) then
      if !allowMultiple then reportError "Multiple declarations not allowed in this context"
      if !isQubit then reportError "only 'qubit' may be multi-declared"
      if hasInit then reportError "Cannot initialise multiple qubit declarations"
      let t ← expect .Identifier "Expected variable name after ','"
      -- cloneAnnotations (name and value only: the clones' placement flags stay false) / cloneType; the clone carries the
      -- first declarator's isTracked
      parseExtraDecls fuel allowMultiple isQubit hasInit isFinal anns ty
        (acc ++ [Stmt.varDecl (tstr t) ty none (anns.map (fun a => { name := a.name, value := a.value })) isFinal
          (annsTracked anns) (tpos t)])
    else pure acc

/-- `parseVariableDeclaration(isFinal, allowMultiple)`; returns the declaration and the staged
    extra declarations (`m_extraStatements`) -/
def parseVariableDeclaration (tb : Tables) (fuel : Nat) (isFinal allowMultiple : Bool) :
    PM (Stmt × List Stmt) := do
  let anns ← parseAnnotations fuel []
  let ty ← parseType tb fuel false
  if !(← check .Identifier) then reportError "Expected variable name"
  let nameTok ← advance
  let init ← if (← matchTok .Equals) then (do pure (some (← parseExpression tb fuel))) else pure none
  let isQubit := match ty with | .prim "qubit" => true | _ => false
  let extras ← parseExtraDecls fuel allowMultiple isQubit init.isSome isFinal anns ty []
  let _ ← expect .Semicolon "expected ';' after declaration"
  pure (Stmt.varDecl (tstr nameTok) ty init anns isFinal (annsTracked anns) (tpos nameTok), extras)

def parseExpressionStatement (tb : Tables) (fuel : Nat) : PM Stmt := do
  let e ← parseExpression tb fuel
  let _ ← expect .Semicolon "Expected ';' after expression"
  pure (.expr e)

mutual

/-- `parseStatement`; the second component is what `flushExtraStatements` will append after it -/
def parseStatement (tb : Tables) (fuel : Nat) : PM (Stmt × List Stmt) :=
  match fuel with
  | 0 => outOfFuel
  | fuel + 1 => withDepth do
    if (← check .LBrace) then
      pure (← parseBlock tb fuel, [])
    else
      let isFinal ← matchTok .Final
      let typeAhead ← isTypeAhead
      if (← check .At) || typeAhead then
        -- (the "Expected variable type after 'final'" branch is unreachable: the guard implies it)
        parseVariableDeclaration tb fuel isFinal true
      else if (← check .Return) then
        let t ← advance
        let v ← if (← check .Semicolon) then pure none else (do pure (some (← parseExpression tb fuel)))
        let _ ← expect .Semicolon "Expected ';' after return value"
        pure (.ret v (tpos t), [])
      else if (← check .If) then
        let _ ← advance
        let _ ← expect .LParen "Expected '(' after 'if'"
        let c ← parseExpression tb fuel
        let _ ← expect .RParen "Expected ')' after condition"
        let thenB ← parseBlock tb fuel
        let elseB ← if (← matchTok .Else) then (do pure (some (← parseBlock tb fuel))) else pure none
        pure (.ifs c thenB elseB, [])
      else if (← check .For) then
        let _ ← advance
        let _ ← expect .LParen "Expected '(' after 'for'"
        let mut init : Option Stmt := none
        if !(← check .Semicolon) then
          let isFinalF ← matchTok .Final
          if (← checkAny [.Int, .Long, .Float, .Char, .String, .Bit, .Boolean, .Qubit]) then
            let (d, _) ← parseVariableDeclaration tb fuel isFinalF false
            init := some d
          else
            if isFinalF then reportError "Expected variable type after 'final'"
            init := some (← parseExpressionStatement tb fuel)
        else
          let _ ← advance
        let c ← parseExpression tb fuel
        let _ ← expect .Semicolon "Expected ';' after loop condition"
        let inc ← parseExpression tb fuel
        let _ ← expect .RParen "Expected ')' after for clause"
        let body ← parseBlock tb fuel
        pure (.fors init c inc body, [])
      else if (← check .While) then
        let _ ← advance
        let _ ← expect .LParen "Expected '(' after 'while'"
        let c ← parseExpression tb fuel
        let _ ← expect .RParen "Expected ')' after condition"
        let body ← parseBlock tb fuel
        pure (.whiles c body, [])
      else if (← check .Echo) then
        let t ← advance
        let _ ← expect .LParen "Expected '(' after 'echo'"
        let v ← parseExpression tb fuel
        let _ ← expect .RParen "Expected ')' after echo argument"
        let _ ← expect .Semicolon "Expected ';' after echo statement"
        pure (.echo v (tpos t), [])
      else if (← check .Reset) then
        let t ← advance
        let e ← parseExpression tb fuel
        let _ ← expect .Semicolon "Expected ';' after reset target"
        pure (.reset e (tpos t), [])
      else if (← check .Measure) then
        let t ← advance
        let e ← parseExpression tb fuel
        let _ ← expect .Semicolon "Expected ';' after measure target"
        pure (.measure e (tpos t), [])
      else if (← check .Destroy) then
        let t ← advance
        let e ← parseExpression tb fuel
        let _ ← expect .Semicolon "Expected ';' after destroy target"
        pure (.destroy e (tpos t), [])
      else if (← check .Identifier) && (← checkNext .Equals) then
        let nameTok ← advance
        let _ ← expect .Equals "Expected '=' in assignment"
        let v ← parseExpression tb fuel
        let _ ← expect .Semicolon "Expected ';' after assignment"
        pure (.assign (tstr nameTok) v (tpos nameTok), [])
      else
        let e ← parseExpression tb fuel
        if (← matchTok .Question) then
          -- extra declarations staged inside a branch stay in `m_extraStatements` until the
          -- enclosing block flushes them after the whole ternary statement
          let (thenB, ex1) ← parseStatement tb fuel
          let _ ← expect .Colon "Expected ':' after true branch"
          let (elseB, ex2) ← parseStatement tb fuel
          pure (.ternary e thenB elseB, ex1 ++ ex2)
        else
          let _ ← expect .Semicolon "Expected ';' after expression"
          pure (.expr e, [])

/-- `parseBlock` -/
def parseBlock (tb : Tables) (fuel : Nat) : PM Stmt :=
  match fuel with
  | 0 => outOfFuel
  | fuel + 1 => do
    let lb ← expect .LBrace "Expected '{' to start block"
    let stmts ← parseBlockBody tb fuel []
    let _ ← expect .RBrace "Expected '}' to end block"
    pure (.block stmts (tpos lb))

/-- `while (!check(RBrace) && !isAtEnd())` of `parseBlock` -/
def parseBlockBody (tb : Tables) (fuel : Nat) (acc : List Stmt) : PM (List Stmt) :=
  match fuel with
  | 0 => outOfFuel
  | fuel + 1 => do
    if !(← check .RBrace) && !(← isAtEnd) then
      let (s, extras) ← parseStatement tb fuel
      parseBlockBody tb fuel (acc ++ [s] ++ extras)
    else pure acc

end

/-! ### declarations -/

/-- `parseParameterList` (methods/constructors) -/
def parseParameterList (tb : Tables) (fuel : Nat) (acc : List Param) : PM (List Param) :=
  match fuel with
  | 0 => outOfFuel
  | fuel + 1 => do
    if !(← check .RParen) then
      let ty ← parseType tb fuel false
      if !(← check .Identifier) then reportError "Expected parameter name."
      let t ← advance
      let acc' := acc ++ [{ name := tstr t, ty := ty, p := tpos t : Param }]
      if (← matchTok .Comma) then parseParameterList tb fuel acc' else pure acc'
    else pure acc

/-- the parameter loop of `parseFunction` (its error message differs) -/
def parseFunctionParams (tb : Tables) (fuel : Nat) (acc : List Param) : PM (List Param) :=
  match fuel with
  | 0 => outOfFuel
  | fuel + 1 => do
    if !(← check .RParen) then
      let ty ← parseType tb fuel false
      let t ← expect .Identifier "Expected parameter name"
      let acc' := acc ++ [{ name := tstr t, ty := ty, p := tpos t : Param }]
      if (← matchTok .Comma) then parseFunctionParams tb fuel acc' else pure acc'
    else pure acc

/-- the `while (check(At))` loop of `parseFunction` -/
def parseFunctionAnnotations (fuel : Nat) (acc : List Ann) : PM (List Ann) :=
  match fuel with
  | 0 => outOfFuel
  | fuel + 1 => do
    if (← check .At) then
      let a ← parseFunctionAnnotation
      if a.name != "quantum" && a.name != "shots" then reportError "Invalid annotation name"
      parseFunctionAnnotations fuel (acc ++ [a])
    else pure acc

def parseFunction (tb : Tables) (fuel : Nat) : PM FuncDecl := do
  let anns ← parseFunctionAnnotations fuel []
  let _ ← expect .Function "Expected 'function' keyword"
  if !(← check .Identifier) then reportError "Expected function name after 'function' keyword"
  let nameTok ← advance
  let _ ← expect .LParen "Expected '(' after function name"
  let params ← parseFunctionParams tb fuel []
  let _ ← expect .RParen "Expected ')' after parameters"
  let _ ← expect .Arrow "Expected '->' before return type"
  let ret ← parseType tb fuel false
  let body ← parseBlock tb fuel
  pure { name := tstr nameTok, params := params, ret := ret, body := body, anns := anns,
         quantum := anns.any (·.name == "quantum"), shots := anns.any (·.name == "shots"),
         p := tpos nameTok }

/-- the modifier loop of `parseClassMember`: `(isStatic, isVirtual, isOverride)` -/
def parseMemberModifiers (fuel : Nat) (st vi ov : Bool) : PM (Bool × Bool × Bool) :=
  match fuel with
  | 0 => outOfFuel
  | fuel + 1 => do
    if (← matchTok .Static) then
      if st then reportError "Duplicate 'static' modifier"
      parseMemberModifiers fuel true vi ov
    else if (← matchTok .Virtual) then
      if vi then reportError "Duplicate 'virtual' modifier"
      parseMemberModifiers fuel st true ov
    else if (← matchTok .Override) then
      if ov then reportError "Duplicate 'override' modifier"
      parseMemberModifiers fuel st vi true
    else pure (st, vi, ov)

def isVisTok : PM Bool := checkAny [.Public, .Private, .Protected]

/-- `= default;` or a block, shared by constructors and destructors -/
def parseDefaultOrBody (tb : Tables) (fuel : Nat) (what : String) : PM (Option Stmt × Bool) := do
  if (← matchTok .Equals) then
    let _ ← expect .Default "Expected 'default' after '='"
    let _ ← expect .Semicolon ("Expected ';' after default " ++ what)
    pure (none, true)
  else
    pure (some (← parseBlock tb fuel), false)

def parseClassMember (tb : Tables) (fuel : Nat) (className : String) (isStaticClass : Bool) : PM Member := do
  let anns0 ← parseAnnotations fuel []
  let hasVis ← isVisTok
  let vis ← if hasVis then parseVisibility else pure (if isStaticClass then Vis.pub else Vis.priv)
  if hasVis && (← isVisTok) then
    reportError "Multiple visibility modifiers are not allowed on class members"
  let (isStatic, isVirtual, isOverride) ← parseMemberModifiers fuel false false false
  let trailing ← parseAnnotations fuel []
  let anns := anns0 ++ trailing
  if (← check .Constructor) then
    let ctorTok ← advance
    if !anns.isEmpty then reportError "Annotations are not allowed on constructors"
    if isStaticClass then reportError "Static classes cannot declare constructors"
    if isStatic || isVirtual || isOverride then
      reportError "Constructors cannot be static, virtual, or override"
    let _ ← expect .LParen "Expected '(' after 'constructor'"
    let params ← parseParameterList tb fuel []
    let _ ← expect .RParen "Expected ')' after constructor parameters"
    let _ ← expect .Arrow "Expected '->' before constructor return type"
    let ret ← parseType tb fuel false
    let okRet := match ret with
      | .named parts _ _ => parts.getLast? == some className
      | _ => false
    if !okRet then reportError ("Constructor must return '" ++ className ++ "'")
    let (body, isDefault) ← parseDefaultOrBody tb fuel "constructor"
    pure (.ctor vis params body isDefault (tpos ctorTok))
  else if (← check .Destructor) then
    let dtorTok ← advance
    if !anns.isEmpty then reportError "Annotations are not allowed on destructors"
    if isStaticClass then reportError "Static classes cannot declare destructors"
    if isStatic || isVirtual || isOverride then
      reportError "Destructors cannot be static, virtual, or override"
    let _ ← expect .LParen "Expected '(' after 'destructor'"
    if !(← check .RParen) then reportError "Destructor cannot have parameters"
    let _ ← expect .RParen "Expected ')' after 'destructor'"
    let _ ← expect .Arrow "Expected '->' before destructor return type"
    let ret ← parseType tb fuel false
    match ret with
    | .void => pure ()
    | _ => reportError "Destructor must return 'void'"
    let (body, isDefault) ← parseDefaultOrBody tb fuel "destructor"
    pure (.dtor vis body isDefault (tpos dtorTok))
  else if (← matchTok .Function) then
    if isStaticClass && !isStatic then reportError "Static classes may only contain static methods"
    if isStaticClass && (isVirtual || isOverride) then
      reportError "Static classes cannot contain virtual or override methods"
    let nameTok ← expect .Identifier "Expected method name"
    let _ ← expect .LParen "Expected '(' after method name"
    let params ← parseParameterList tb fuel []
    let _ ← expect .RParen "Expected ')' after parameters"
    let _ ← expect .Arrow "Expected '->' before return type"
    let ret ← parseType tb fuel false
    let body ← if (← check .LBrace) then (do pure (some (← parseBlock tb fuel))) else (do
      if !isVirtual then reportError "Method must have a body unless it is marked 'virtual'"
      let _ ← expect .Semicolon "Expected ';' after virtual method declaration without a body"
      pure none)
    pure (.method vis (tstr nameTok) params ret body anns (anns.any (·.name == "quantum"))
      isStatic isVirtual isOverride (tpos nameTok))
  else
    if isVirtual || isOverride then reportError "'virtual' or 'override' may only modify methods"
    if isStaticClass && !isStatic then reportError "Static classes may only contain static members"
    let isFinal ← matchTok .Final
    let ty ← parseType tb fuel false
    let nameTok ← expect .Identifier "Expected field name"
    let init ← if (← matchTok .Equals) then (do pure (some (← parseExpression tb fuel))) else pure none
    let _ ← expect .Semicolon "Expected ';' after field declaration"
    pure (.field vis (tstr nameTok) ty init anns isFinal isStatic (annsTracked anns) (tpos nameTok))

def parseTypeParamsLoop (tb : Tables) (fuel : Nat) (acc : List TypeParam) : PM (List TypeParam) :=
  match fuel with
  | 0 => outOfFuel
  | fuel + 1 => do
    let nameTok ← expect .Identifier "Expected type parameter name"
    let bound ← if (← matchTok .Extends) then (do pure (some (← parseType tb fuel false))) else pure none
    let acc' := acc ++ [{ name := tstr nameTok, bound := bound, p := tpos nameTok : TypeParam }]
    if (← matchTok .Comma) then parseTypeParamsLoop tb fuel acc' else pure acc'

def parseTypeParameters (tb : Tables) (fuel : Nat) : PM (List TypeParam) := do
  let _ ← expect .Less "Expected '<' to start type parameters"
  if (← check .Greater) then
    let _ ← advance
    pure []
  else
    let ps ← parseTypeParamsLoop tb fuel []
    let _ ← expect .Greater "Expected '>' to end type parameters"
    pure ps

def parseClassModifiers (fuel : Nat) (st ab : Bool) : PM (Bool × Bool) :=
  match fuel with
  | 0 => outOfFuel
  | fuel + 1 => do
    if (← matchTok .Static) then
      if st then reportError "duplicate 'static' modifier on class"
      parseClassModifiers fuel true ab
    else if (← matchTok .Abstract) then
      if ab then reportError "duplicate 'abstract' modifier on class"
      parseClassModifiers fuel st true
    else pure (st, ab)

def parseClassMembers (tb : Tables) (fuel : Nat) (className : String) (isStatic : Bool)
    (acc : List Member) : PM (List Member) :=
  match fuel with
  | 0 => outOfFuel
  | fuel + 1 => do
    if !(← check .RBrace) && !(← isAtEnd) then
      let m ← parseClassMember tb fuel className isStatic
      parseClassMembers tb fuel className isStatic (acc ++ [m])
    else pure acc

def parseClassDeclaration (tb : Tables) (fuel : Nat) : PM ClassDecl := do
  let (isStatic, isAbstract) ← parseClassModifiers fuel false false
  let _ ← expect .Class "Expected 'class' keyword"
  let nameTok ← expect .Identifier "Expected class name after 'class'"
  let tparams ← if (← check .Less) then parseTypeParameters tb fuel else pure []
  let mut baseType : Option Ty := none
  let mut baseName : List String := []
  if (← matchTok .Extends) then
    let bt ← parseType tb fuel false
    match bt with
    | .named parts _ _ => baseName := parts
    | _ => reportError "Base class must be a named type"
    baseType := some bt
    if (← check .Extends) then reportError "Only single inheritance is supported"
  let _ ← expect .LBrace "Expected '{' to start class body"
  let members ← parseClassMembers tb fuel (tstr nameTok) isStatic []
  let _ ← expect .RBrace "Expected '}' to end class body"
  pure { name := tstr nameTok, typeParams := tparams, baseName := baseName, baseType := baseType,
         isStatic := isStatic, isAbstract := isAbstract, members := members, p := tpos nameTok }

def parseImportParts (fuel : Nat) (parts : List String) : PM (List String × Bool) :=
  match fuel with
  | 0 => outOfFuel
  | fuel + 1 => do
    if (← matchTok .Dot) then
      if (← matchTok .Star) then pure (parts, true)
      else
        let part ← expect .Identifier "Expected identifier after '.'"
        parseImportParts fuel (parts ++ [tstr part])
    else pure (parts, false)

def parseImport (fuel : Nat) (importTok : Token) : PM ImportDecl := do
  let first ← expect .Identifier "Expected identifier after 'import'"
  let (parts, wildcard) ← parseImportParts fuel [tstr first]
  let decl : ImportDecl :=
    if wildcard then { pkg := parts, symbol := none, wildcard := true, p := tpos importTok }
    else { pkg := parts.dropLast, symbol := parts.getLast?, wildcard := false, p := tpos importTok }
  let _ ← expect .Semicolon "Expected ';' after import statement"
  pure decl

/-- the main loop of `Parser::parse` -/
def parseProgramLoop (tb : Tables) (fuel : Nat) (seenPackage seenTop : Bool) (prog : Program) : PM Program :=
  match fuel with
  | 0 => outOfFuel
  | fuel + 1 => do
    if (← isAtEnd) then pure prog
    else if !seenTop && (← check .Package) then
      let pkgTok ← advance
      if seenPackage then reportError "Only one package declaration is allowed per file"
      let parts ← parseQualifiedName fuel
      let _ ← expect .Semicolon "Expected ';' after package declaration"
      parseProgramLoop tb fuel true seenTop { prog with package := some (parts, tpos pkgTok) }
    else if !seenTop && (← check .Import) then
      let importTok ← advance
      let imp ← parseImport fuel importTok
      parseProgramLoop tb fuel seenPackage seenTop { prog with imports := prog.imports ++ [imp] }
    else if (← checkAny [.Static, .Abstract, .Class]) then
      let c ← parseClassDeclaration tb fuel
      parseProgramLoop tb fuel seenPackage true { prog with classes := prog.classes ++ [c] }
    else if (← check .Function) || (← checkFunctionAnnotation) then
      let f ← parseFunction tb fuel
      parseProgramLoop tb fuel seenPackage true { prog with functions := prog.functions ++ [f] }
    else
      let (s, extras) ← parseStatement tb fuel
      parseProgramLoop tb fuel seenPackage true
        { prog with statements := prog.statements ++ [s] ++ extras }

/-- `Parser(tokens).parse()`; the fuel is a generous multiple of the token count -/
def parseProgram (tb : Tables) (tokens : List Token) : Except PErr Program :=
  let fuel := 16 * tokens.length + 100
  match (parseProgramLoop tb fuel false false {}).run { toks := tokens } with
  | .ok (p, _) => .ok p
  | .error e => .error e

end BlochVerif.Parse
