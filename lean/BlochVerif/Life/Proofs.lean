import BlochVerif.Life.Model
/-! Reference counts are exact: proofs about `Life.Model`. -/
namespace BlochVerif.Life
open BlochVerif.Gc (Fld Prim)

/-- 1 if the reference `v` points to `x` -/
def ind (x : Nat) (v : Option Nat) : Nat := if v = some x then 1 else 0

/-- references to `x` held by the fields of one object (a destroyed object holds none) -/
def objRefs (x : Nat) (o : LObj) : Nat := if o.dead then 0 else ind x o.a + ind x o.b

/-- all strong references to `x`: slots and fields of objects that are still alive -/
def refs (s : St) (x : Nat) : Nat := (s.slots.map (ind x)).sum + (s.heap.map (objRefs x)).sum

theorem sum_map_set {α : Type} (l : List α) (f : α → Nat) (i : Nat) (v : α) (hi : i < l.length) :
    ((l.set i v).map f).sum + f l[i] = (l.map f).sum + f v := by
  induction l generalizing i with
  | nil => simp at hi
  | cons a rest ih =>
    cases i with
    | zero => simp; omega
    | succ j =>
      simp only [List.length_cons] at hi
      have := ih j (by omega)
      simp only [List.set_cons_succ, List.map_cons, List.sum_cons, List.getElem_cons_succ]
      omega

theorem sum_map_append_one {α : Type} (l : List α) (f : α → Nat) (v : α) :
    ((l ++ [v]).map f).sum = (l.map f).sum + f v := by simp

/-- slot update: the old target loses a reference, the new one gains one -/
theorem refs_setSlotRaw (s : St) (d : Nat) (v : Option Nat) (hd : d < s.slots.length) (x : Nat) :
    refs (setSlotRaw s d v) x + ind x (getSlot s d) = refs s x + ind x v := by
  unfold refs setSlotRaw getSlot
  have h := sum_map_set s.slots (ind x) d v hd
  have hg : (s.slots[d]?).join = s.slots[d] := by simp [List.getElem?_eq_getElem hd]
  rw [hg]
  simp only
  omega

/-- heap update at one object -/
theorem refs_setHeap (s : St) (i : Nat) (o' : LObj) (hi : i < s.heap.length) (x : Nat) :
    refs { s with heap := s.heap.set i o' } x + objRefs x s.heap[i] = refs s x + objRefs x o' := by
  unfold refs
  have h := sum_map_set s.heap (objRefs x) i o' hi
  simp only
  omega

theorem refs_append (s : St) (o : LObj) (x : Nat) :
    refs { s with heap := s.heap ++ [o] } x = refs s x + objRefs x o := by
  unfold refs
  simp only [sum_map_append_one]
  omega

theorem refs_out (s : St) (l : List String) (x : Nat) : refs { s with out := l } x = refs s x := rfl

/-- number of objects whose destructor has not run -/
def liveCount (s : St) : Nat := (s.heap.map (fun o => if o.dead then 0 else 1)).sum

/-- the bookkeeping invariant with credits: `c x` counts references to `x` that have been added to its count
(or not yet taken off it) but are not stored in a slot or a field at this moment -/
structure InvC (s : St) (c : Nat → Nat) : Prop where
  slotsWF : ∀ d y, getSlot s d = some y → y < s.heap.length
  fieldsWF : ∀ (x : Nat) (o : LObj) (y : Nat), s.heap[x]? = some o → (o.a = some y ∨ o.b = some y) → y < s.heap.length
  live : ∀ (x : Nat) (o : LObj), s.heap[x]? = some o → o.dead = false → o.rc = refs s x + c x
  deadObj : ∀ (x : Nat) (o : LObj), s.heap[x]? = some o → o.dead = true → o.a = none ∧ o.b = none ∧ refs s x = 0 ∧ c x = 0
  credOut : ∀ x, s.heap.length ≤ x → c x = 0

theorem objRefs_rc (x : Nat) (o : LObj) (r : Nat) : objRefs x { o with rc := r } = objRefs x o := rfl

/-- changing only a count changes no reference -/
theorem refs_set_rc (s : St) (i : Nat) (o : LObj) (r : Nat) (hi : s.heap[i]? = some o) (x : Nat) :
    refs { s with heap := s.heap.set i { o with rc := r } } x = refs s x := by
  obtain ⟨hl, hget⟩ := List.getElem?_eq_some_iff.mp hi
  have := refs_setHeap s i { o with rc := r } hl x
  have he : objRefs x { o with rc := r } = objRefs x o := rfl
  rw [hget] at this
  omega

theorem getSlot_heap (s : St) (h : List LObj) (d : Nat) : getSlot { s with heap := h } d = getSlot s d := rfl

/-- `retain`: the count goes up by one and the reference becomes a credit -/
theorem retain_spec (s : St) (c : Nat → Nat) (hinv : InvC s c) (v : Option Nat)
    (hv : ∀ x, v = some x → ∃ o, s.heap[x]? = some o ∧ o.dead = false) :
    InvC (retain s v) (fun y => c y + ind y v) := by
  cases v with
  | none => simpa [retain, ind] using hinv
  | some x =>
    obtain ⟨o, ho, hod⟩ := hv x rfl
    have hl : x < s.heap.length := (List.getElem?_eq_some_iff.mp ho).1
    simp only [retain, ho]
    have hrefs : ∀ y, refs { s with heap := s.heap.set x { o with rc := o.rc + 1 } } y = refs s y :=
      fun y => refs_set_rc s x o (o.rc + 1) ho y
    refine ⟨?_, ?_, ?_, ?_, ?_⟩
    · intro d y hy
      simp only [List.length_set]
      exact hinv.slotsWF d y hy
    · intro z oz y hz hy
      simp only [List.length_set]
      by_cases hzx : z = x
      · subst hzx
        simp only [List.getElem?_set_self hl, Option.some.injEq] at hz
        subst hz
        exact hinv.fieldsWF z o y ho hy
      · simp only [List.getElem?_set_ne (Ne.symm hzx)] at hz
        exact hinv.fieldsWF z oz y hz hy
    · intro z oz hz hzd
      rw [hrefs]
      by_cases hzx : z = x
      · subst hzx
        simp only [List.getElem?_set_self hl, Option.some.injEq] at hz
        subst hz
        have := hinv.live z o ho hod
        simp only [ind, if_true]
        omega
      · simp only [List.getElem?_set_ne (Ne.symm hzx)] at hz
        have := hinv.live z oz hz hzd
        have hne : ¬ (some x = some z) := by intro h; exact hzx (Option.some.inj h).symm
        simp only [ind, hne, if_false]
        omega
    · intro z oz hz hzd
      rw [hrefs]
      by_cases hzx : z = x
      · subst hzx
        simp only [List.getElem?_set_self hl, Option.some.injEq] at hz
        subst hz
        simp at hzd
        rw [hod] at hzd; cases hzd
      · simp only [List.getElem?_set_ne (Ne.symm hzx)] at hz
        obtain ⟨h1, h2, h3, h4⟩ := hinv.deadObj z oz hz hzd
        have hne : ¬ (some x = some z) := by intro h; exact hzx (Option.some.inj h).symm
        exact ⟨h1, h2, h3, by simp only [ind, hne, if_false]; omega⟩
    · intro z hz
      simp only [List.length_set] at hz
      have hne : ¬ (some x = some z) := by intro h; have := (Option.some.inj h); omega
      simp only [ind, hne, if_false]
      have := hinv.credOut z hz
      omega

theorem InvC.congr {s : St} {c c' : Nat → Nat} (h : InvC s c) (hc : ∀ y, c y = c' y) : InvC s c' := by
  have : c = c' := funext hc
  rw [← this]; exact h

theorem ind_none (y : Nat) : ind y none = 0 := by simp [ind]

theorem liveCount_setHeap (s : St) (i : Nat) (o' : LObj) (hi : i < s.heap.length) :
    liveCount { s with heap := s.heap.set i o' } + (if s.heap[i].dead then 0 else 1) =
      liveCount s + (if o'.dead then 0 else 1) := by
  unfold liveCount
  exact sum_map_set s.heap (fun o => if o.dead then 0 else 1) i o' hi

theorem liveCount_pos (s : St) (x : Nat) (o : LObj) (h : s.heap[x]? = some o) (hd : o.dead = false) :
    1 ≤ liveCount s := by
  obtain ⟨hl, hget⟩ := List.getElem?_eq_some_iff.mp h
  have := liveCount_setHeap s x { o with dead := true } hl
  rw [hget, hd] at this
  simp at this
  omega

/-- the object after its destructor ran: no count, no fields -/
def kill (o : LObj) : LObj := { o with rc := 0, dead := true, a := none, b := none }

/-- the state right after the destructor of `x` ran and its fields were detached -/
def killSt (s : St) (x : Nat) (o : LObj) : St :=
  { s with heap := s.heap.set x (kill o), out := s.out ++ [s!"d{o.id}"] }

def decSt (s : St) (x : Nat) (o : LObj) : St := { s with heap := s.heap.set x { o with rc := o.rc - 1 } }

theorem release_succ (fuel : Nat) (s : St) (x : Nat) (o : LObj) (ho : s.heap[x]? = some o) (hd : o.dead = false) :
    release (fuel + 1) s (some x) =
      if o.rc > 1 then decSt s x o
      else release fuel (release fuel (killSt s x o) o.a) o.b := by
  rw [release]
  simp only [ho]
  rw [if_neg (by rw [hd]; exact Bool.false_ne_true)]
  rfl

theorem credited_is_live {s : St} {c : Nat → Nat} {x : Nat} (hinv : InvC s (fun y => c y + ind y (some x))) :
    x < s.heap.length ∧ ∃ o, s.heap[x]? = some o ∧ o.dead = false ∧ o.rc = refs s x + c x + 1 := by
  have hlt : x < s.heap.length := by
    apply Decidable.byContradiction; intro hc
    have := hinv.credOut x (Nat.le_of_not_lt hc)
    simp [ind] at this
  refine ⟨hlt, s.heap[x], List.getElem?_eq_getElem hlt, ?_⟩
  have ho : s.heap[x]? = some s.heap[x] := List.getElem?_eq_getElem hlt
  have hd : (s.heap[x]).dead = false := by
    apply Decidable.byContradiction; intro hc
    have hc' : (s.heap[x]).dead = true := by simpa using hc
    have := (hinv.deadObj x _ ho hc').2.2.2
    simp [ind] at this
  refine ⟨hd, ?_⟩
  have := hinv.live x _ ho hd
  simp [ind] at this
  omega

theorem ind_ne {x z : Nat} (h : z ≠ x) : ind z (some x) = 0 := by
  unfold ind
  rw [if_neg]
  intro hh; exact h (Option.some.inj hh).symm

theorem ind_self (x : Nat) : ind x (some x) = 1 := by simp [ind]

/-- counting down one of several references -/
theorem dec_spec (s : St) (c : Nat → Nat) (x : Nat) (o : LObj)
    (hinv : InvC s (fun y => c y + ind y (some x))) (ho : s.heap[x]? = some o) (hgt : o.rc > 1) :
    InvC (decSt s x o) c ∧ liveCount (decSt s x o) = liveCount s := by
  obtain ⟨hlt, hget⟩ := List.getElem?_eq_some_iff.mp ho
  have hrefs : ∀ y, refs (decSt s x o) y = refs s y := fun y => refs_set_rc s x o (o.rc - 1) ho y
  have hheap : (decSt s x o).heap = s.heap.set x { o with rc := o.rc - 1 } := rfl
  have hlen : (decSt s x o).heap.length = s.heap.length := by rw [hheap, List.length_set]
  have hslot : ∀ d, getSlot (decSt s x o) d = getSlot s d := fun d => rfl
  refine ⟨⟨?_, ?_, ?_, ?_, ?_⟩, ?_⟩
  · intro d y hy; rw [hlen]; exact hinv.slotsWF d y (by rw [← hslot]; exact hy)
  · intro z oz y hz hy
    rw [hlen]; rw [hheap] at hz
    by_cases hzx : z = x
    · subst hzx
      simp only [List.getElem?_set_self hlt, Option.some.injEq] at hz
      subst hz
      exact hinv.fieldsWF z o y ho hy
    · simp only [List.getElem?_set_ne (Ne.symm hzx)] at hz
      exact hinv.fieldsWF z oz y hz hy
  · intro z oz hz hzd
    rw [hrefs]; rw [hheap] at hz
    by_cases hzx : z = x
    · subst hzx
      simp only [List.getElem?_set_self hlt, Option.some.injEq] at hz
      subst hz
      have hd : o.dead = false := hzd
      have := hinv.live z o ho hd
      simp only [ind_self] at this
      show o.rc - 1 = _
      omega
    · simp only [List.getElem?_set_ne (Ne.symm hzx)] at hz
      have := hinv.live z oz hz hzd
      simp only [ind_ne hzx] at this
      omega
  · intro z oz hz hzd
    rw [hrefs]; rw [hheap] at hz
    by_cases hzx : z = x
    · subst hzx
      simp only [List.getElem?_set_self hlt, Option.some.injEq] at hz
      subst hz
      have hd : o.dead = true := hzd
      have := (hinv.deadObj z o ho hd).2.2.2
      simp [ind_self] at this
    · simp only [List.getElem?_set_ne (Ne.symm hzx)] at hz
      obtain ⟨h1, h2, h3, h4⟩ := hinv.deadObj z oz hz hzd
      simp only [ind_ne hzx] at h4
      exact ⟨h1, h2, h3, by omega⟩
  · intro z hz
    rw [hlen] at hz
    have := hinv.credOut z hz
    have hzx : z ≠ x := by omega
    simp only [ind_ne hzx] at this
    omega
  · have := liveCount_setHeap s x { o with rc := o.rc - 1 } hlt
    rw [hget] at this
    have e : liveCount (decSt s x o) = liveCount { s with heap := s.heap.set x { o with rc := o.rc - 1 } } := rfl
    have e2 : ({ o with rc := o.rc - 1 } : LObj).dead = o.dead := rfl
    rw [e2] at this
    omega

/-- the last reference goes: the object dies, its fields turn into credits -/
theorem kill_spec (s : St) (c : Nat → Nat) (x : Nat) (o : LObj)
    (hinv : InvC s (fun y => c y + ind y (some x))) (ho : s.heap[x]? = some o) (hd : o.dead = false)
    (hrc : o.rc = 1) :
    InvC (killSt s x o) (fun y => (c y + ind y o.b) + ind y o.a) ∧ liveCount (killSt s x o) + 1 = liveCount s ∧
      (killSt s x o).slots = s.slots ∧ (killSt s x o).heap.length = s.heap.length := by
  obtain ⟨hlt, hget⟩ := List.getElem?_eq_some_iff.mp ho
  have hlive := hinv.live x o ho hd
  simp only [ind_self] at hlive
  have hr0 : refs s x = 0 ∧ c x = 0 := by omega
  have hheap : (killSt s x o).heap = s.heap.set x (kill o) := rfl
  have hlen : (killSt s x o).heap.length = s.heap.length := by rw [hheap, List.length_set]
  have hslot : ∀ d, getSlot (killSt s x o) d = getSlot s d := fun d => rfl
  have hrefs1 : ∀ y, refs (killSt s x o) y + (ind y o.a + ind y o.b) = refs s y := by
    intro y
    have := refs_setHeap s x (kill o) hlt y
    rw [hget] at this
    have e1 : objRefs y (kill o) = 0 := by simp [objRefs, kill]
    have e2 : objRefs y o = ind y o.a + ind y o.b := by simp [objRefs, hd]
    have e3 : refs (killSt s x o) y = refs { s with heap := s.heap.set x (kill o) } y := rfl
    omega
  have hself : ind x o.a + ind x o.b = 0 := by have := hrefs1 x; omega
  refine ⟨⟨?_, ?_, ?_, ?_, ?_⟩, ?_, rfl, hlen⟩
  · intro d y hy; rw [hlen]; exact hinv.slotsWF d y (by rw [← hslot]; exact hy)
  · intro z oz y hz hy
    rw [hlen]; rw [hheap] at hz
    by_cases hzx : z = x
    · subst hzx
      simp only [List.getElem?_set_self hlt, Option.some.injEq] at hz
      subst hz
      simp [kill] at hy
    · simp only [List.getElem?_set_ne (Ne.symm hzx)] at hz
      exact hinv.fieldsWF z oz y hz hy
  · intro z oz hz hzd
    rw [hheap] at hz
    by_cases hzx : z = x
    · subst hzx
      simp only [List.getElem?_set_self hlt, Option.some.injEq] at hz
      subst hz
      simp [kill] at hzd
    · simp only [List.getElem?_set_ne (Ne.symm hzx)] at hz
      have := hinv.live z oz hz hzd
      simp only [ind_ne hzx] at this
      have h1 := hrefs1 z
      omega
  · intro z oz hz hzd
    rw [hheap] at hz
    by_cases hzx : z = x
    · subst hzx
      simp only [List.getElem?_set_self hlt, Option.some.injEq] at hz
      subst hz
      have h1 := hrefs1 z
      exact ⟨rfl, rfl, by omega, by omega⟩
    · simp only [List.getElem?_set_ne (Ne.symm hzx)] at hz
      obtain ⟨h1, h2, h3, h4⟩ := hinv.deadObj z oz hz hzd
      simp only [ind_ne hzx] at h4
      have h5 := hrefs1 z
      exact ⟨h1, h2, by omega, by omega⟩
  · intro z hz
    rw [hlen] at hz
    have h0 := hinv.credOut z hz
    have hzx : z ≠ x := by omega
    simp only [ind_ne hzx] at h0
    have ha : ind z o.a = 0 := by
      unfold ind; split
      · rename_i hh; have := hinv.fieldsWF x o z ho (Or.inl hh); omega
      · rfl
    have hb : ind z o.b = 0 := by
      unfold ind; split
      · rename_i hh; have := hinv.fieldsWF x o z ho (Or.inr hh); omega
      · rfl
    omega
  · have := liveCount_setHeap s x (kill o) hlt
    rw [hget] at this
    have e : liveCount (killSt s x o) = liveCount { s with heap := s.heap.set x (kill o) } := rfl
    have e2 : (kill o).dead = true := rfl
    rw [e2, hd] at this
    simp at this
    omega

/-- `release`: consumes one credit of the released reference; when the count reaches zero the object dies, its
fields become credits and are released in turn.  The invariant is re-established and nothing comes to life. -/
theorem release_spec : ∀ (fuel : Nat) (s : St) (c : Nat → Nat) (v : Option Nat),
    InvC s (fun y => c y + ind y v) → liveCount s ≤ fuel →
    InvC (release fuel s v) c ∧ liveCount (release fuel s v) ≤ liveCount s ∧
      (release fuel s v).slots = s.slots ∧ (release fuel s v).heap.length = s.heap.length := by
  intro fuel
  induction fuel with
  | zero =>
    intro s c v hinv hf
    cases v with
    | none => exact ⟨hinv.congr (fun y => by simp [ind_none]), Nat.le_refl _, rfl, rfl⟩
    | some x =>
      exfalso
      obtain ⟨_, o, ho, hd, _⟩ := credited_is_live hinv
      have := liveCount_pos s x o ho hd
      omega
  | succ fuel ih =>
    intro s c v hinv hf
    cases v with
    | none => exact ⟨hinv.congr (fun y => by simp [ind_none]), Nat.le_refl _, rfl, rfl⟩
    | some x =>
      obtain ⟨hlt, o, ho, hd, hrc⟩ := credited_is_live hinv
      rw [release_succ fuel s x o ho hd]
      by_cases hgt : o.rc > 1
      · rw [if_pos hgt]
        obtain ⟨h1, h2⟩ := dec_spec s c x o hinv ho hgt
        exact ⟨h1, by omega, rfl, by simp [decSt]⟩
      · rw [if_neg hgt]
        obtain ⟨hinv1, hlc1, hs1, hh1⟩ := kill_spec s c x o hinv ho hd (by omega)
        obtain ⟨hi2, hl2, hs2, hh2⟩ := ih (killSt s x o) (fun y => c y + ind y o.b) o.a hinv1 (by omega)
        obtain ⟨hi3, hl3, hs3, hh3⟩ := ih (release fuel (killSt s x o) o.a) c o.b hi2 (by omega)
        refine ⟨hi3, by omega, ?_, ?_⟩
        · rw [hs3, hs2, hs1]
        · rw [hh3, hh2, hh1]

/-! ## the primitives keep the counts exact -/

theorem le_sum_map {α : Type} (l : List α) (f : α → Nat) (i : Nat) (hi : i < l.length) : f l[i] ≤ (l.map f).sum := by
  induction l generalizing i with
  | nil => simp at hi
  | cons a rest ih =>
    cases i with
    | zero => simp
    | succ j =>
      have := ih j (by simpa using hi)
      simp only [List.getElem_cons_succ, List.map_cons, List.sum_cons]
      omega

theorem sum_map_zero {α : Type} (l : List α) (f : α → Nat) (h : ∀ i (hi : i < l.length), f l[i] = 0) :
    (l.map f).sum = 0 := by
  induction l with
  | nil => rfl
  | cons a rest ih =>
    have h0 := h 0 (by simp)
    have hr := ih (fun i hi => by have := h (i + 1) (by simpa using hi); simpa using this)
    simp only [List.map_cons, List.sum_cons]
    simp at h0
    omega

theorem getSlot_of_lt (s : St) (d : Nat) (hd : d < s.slots.length) : getSlot s d = s.slots[d] := by
  simp [getSlot, List.getElem?_eq_getElem hd]

theorem le_refs_of_slot (s : St) (d y : Nat) (h : getSlot s d = some y) : 1 ≤ refs s y := by
  have hd : d < s.slots.length := by
    apply Decidable.byContradiction; intro hc
    simp [getSlot, List.getElem?_eq_none (Nat.le_of_not_lt hc)] at h
  have h1 := le_sum_map s.slots (ind y) d hd
  rw [← getSlot_of_lt s d hd, h, ind_self] at h1
  unfold refs; omega

theorem le_refs_of_field (s : St) (x y : Nat) (o : LObj) (ho : s.heap[x]? = some o) (hd : o.dead = false)
    (h : o.a = some y ∨ o.b = some y) : 1 ≤ refs s y := by
  obtain ⟨hl, hget⟩ := List.getElem?_eq_some_iff.mp ho
  have h1 := le_sum_map s.heap (objRefs y) x hl
  rw [hget] at h1
  have : 1 ≤ objRefs y o := by
    unfold objRefs; rw [hd]; simp only [Bool.false_eq_true, if_false]
    cases h with
    | inl h => rw [h, ind_self]; omega
    | inr h => rw [h, ind_self]; omega
  unfold refs; omega

/-- whatever is referenced has not been destroyed -/
theorem target_live {s : St} {c : Nat → Nat} (hinv : InvC s c) (y : Nat) (hy : y < s.heap.length) (h : 1 ≤ refs s y) :
    ∃ o, s.heap[y]? = some o ∧ o.dead = false := by
  refine ⟨s.heap[y], List.getElem?_eq_getElem hy, ?_⟩
  apply Decidable.byContradiction; intro hc
  have hc' : (s.heap[y]).dead = true := by simpa using hc
  have := (hinv.deadObj y _ (List.getElem?_eq_getElem hy) hc').2.2.1
  omega

theorem slot_live {s : St} {c : Nat → Nat} (hinv : InvC s c) (d : Nat) :
    ∀ x, getSlot s d = some x → ∃ o, s.heap[x]? = some o ∧ o.dead = false :=
  fun x h => target_live hinv x (hinv.slotsWF d x h) (le_refs_of_slot s d x h)

theorem field_live {s : St} {c : Nat → Nat} (hinv : InvC s c) (x : Nat) (o : LObj) (ho : s.heap[x]? = some o)
    (hd : o.dead = false) (f : Fld) :
    ∀ y, o.get f = some y → ∃ o', s.heap[y]? = some o' ∧ o'.dead = false := by
  intro y h
  have h' : o.a = some y ∨ o.b = some y := by
    cases f with
    | a => exact Or.inl h
    | b => exact Or.inr h
  exact target_live hinv y (hinv.fieldsWF x o y ho h') (le_refs_of_field s x y o ho hd h')

theorem liveCount_le_length (s : St) : liveCount s ≤ s.heap.length := by
  unfold liveCount
  generalize s.heap = l
  induction l with
  | nil => simp
  | cons a rest ih =>
    simp only [List.map_cons, List.sum_cons, List.length_cons]
    split <;> omega

theorem refs_out_of_range {s : St} {c : Nat → Nat} (hinv : InvC s c) (x : Nat) (hx : s.heap.length ≤ x) :
    refs s x = 0 := by
  unfold refs
  have h1 : (s.slots.map (ind x)).sum = 0 := by
    apply sum_map_zero
    intro d hd
    unfold ind; split
    · rename_i hh
      have := hinv.slotsWF d x (by rw [getSlot_of_lt s d hd]; exact hh)
      omega
    · rfl
  have h2 : (s.heap.map (objRefs x)).sum = 0 := by
    apply sum_map_zero
    intro i hi
    have hget : s.heap[i]? = some s.heap[i] := List.getElem?_eq_getElem hi
    unfold objRefs; split
    · rfl
    · have ha : ind x (s.heap[i]).a = 0 := by
        unfold ind; split
        · rename_i hh; have := hinv.fieldsWF i _ x hget (Or.inl hh); omega
        · rfl
      have hb : ind x (s.heap[i]).b = 0 := by
        unfold ind; split
        · rename_i hh; have := hinv.fieldsWF i _ x hget (Or.inr hh); omega
        · rfl
      omega
  omega

theorem getSlot_setSlotRaw (s : St) (d d' : Nat) (v : Option Nat) (hd : d < s.slots.length) :
    getSlot (setSlotRaw s d v) d' = if d' = d then v else getSlot s d' := by
  unfold getSlot setSlotRaw
  by_cases h : d' = d
  · subst h; simp [List.getElem?_set_self hd]
  · simp only [h, if_false]
    rw [List.getElem?_set_ne (Ne.symm h)]

/-- storing a credited reference into a slot: the credit is used up, the slot's old content becomes one -/
theorem setSlot_spec (s : St) (c : Nat → Nat) (d : Nat) (v : Option Nat)
    (hinv : InvC s (fun y => c y + ind y v)) (hd : d < s.slots.length) :
    InvC (setSlotRaw s d v) (fun y => c y + ind y (getSlot s d)) := by
  have hrefs : ∀ y, refs (setSlotRaw s d v) y + ind y (getSlot s d) = refs s y + ind y v :=
    fun y => refs_setSlotRaw s d v hd y
  have hheap : (setSlotRaw s d v).heap = s.heap := rfl
  refine ⟨?_, ?_, ?_, ?_, ?_⟩
  · intro d' y hy
    rw [hheap]
    rw [getSlot_setSlotRaw s d d' v hd] at hy
    by_cases h : d' = d
    · simp only [h, if_true] at hy
      apply Decidable.byContradiction; intro hc
      have := hinv.credOut y (Nat.le_of_not_lt hc)
      rw [hy, ind_self] at this
      omega
    · simp only [h, if_false] at hy
      exact hinv.slotsWF d' y hy
  · intro z oz y hz hy
    rw [hheap] at hz ⊢
    exact hinv.fieldsWF z oz y hz hy
  · intro z oz hz hzd
    rw [hheap] at hz
    have := hinv.live z oz hz hzd
    have h1 := hrefs z
    omega
  · intro z oz hz hzd
    rw [hheap] at hz
    obtain ⟨h1, h2, h3, h4⟩ := hinv.deadObj z oz hz hzd
    have h5 := hrefs z
    exact ⟨h1, h2, by omega, by omega⟩
  · intro z hz
    rw [hheap] at hz
    have h0 := hinv.credOut z hz
    have : ind z (getSlot s d) = 0 := by
      unfold ind; split
      · rename_i hh; have := hinv.slotsWF d z hh; omega
      · rfl
    omega

theorem put_rc (o : LObj) (f : Fld) (v : Option Nat) : (o.put f v).rc = o.rc := by cases f <;> rfl
theorem put_dead (o : LObj) (f : Fld) (v : Option Nat) : (o.put f v).dead = o.dead := by cases f <;> rfl

theorem objRefs_put (y : Nat) (o : LObj) (f : Fld) (v : Option Nat) (hd : o.dead = false) :
    objRefs y (o.put f v) + ind y (o.get f) = objRefs y o + ind y v := by
  cases f <;> simp [objRefs, LObj.put, LObj.get, hd] <;> omega

/-- storing a credited reference into a field of a live object -/
theorem setField_spec (s : St) (c : Nat → Nat) (x : Nat) (o : LObj) (f : Fld) (v : Option Nat)
    (hinv : InvC s (fun y => c y + ind y v)) (ho : s.heap[x]? = some o) (hd : o.dead = false) :
    InvC { s with heap := s.heap.set x (o.put f v) } (fun y => c y + ind y (o.get f)) := by
  obtain ⟨hlt, hget⟩ := List.getElem?_eq_some_iff.mp ho
  have hrefs : ∀ y, refs { s with heap := s.heap.set x (o.put f v) } y + ind y (o.get f) = refs s y + ind y v := by
    intro y
    have h1 := refs_setHeap s x (o.put f v) hlt y
    rw [hget] at h1
    have h2 := objRefs_put y o f v hd
    omega
  have vlt : ∀ y, v = some y → y < s.heap.length := by
    intro y hy
    apply Decidable.byContradiction; intro hc
    have := hinv.credOut y (Nat.le_of_not_lt hc)
    rw [hy, ind_self] at this
    omega
  refine ⟨?_, ?_, ?_, ?_, ?_⟩
  · intro d y hy
    show y < (s.heap.set x (o.put f v)).length
    rw [List.length_set]; exact hinv.slotsWF d y hy
  · intro z oz y hz hy
    show y < (s.heap.set x (o.put f v)).length
    rw [List.length_set]
    have hz' : (s.heap.set x (o.put f v))[z]? = some oz := hz
    by_cases hzx : z = x
    · subst hzx
      simp only [List.getElem?_set_self hlt, Option.some.injEq] at hz'
      subst hz'
      cases f with
      | a =>
        cases hy with
        | inl h => exact vlt y h
        | inr h => exact hinv.fieldsWF z o y ho (Or.inr h)
      | b =>
        cases hy with
        | inl h => exact hinv.fieldsWF z o y ho (Or.inl h)
        | inr h => exact vlt y h
    · simp only [List.getElem?_set_ne (Ne.symm hzx)] at hz'
      exact hinv.fieldsWF z oz y hz' hy
  · intro z oz hz hzd
    have hz' : (s.heap.set x (o.put f v))[z]? = some oz := hz
    have h1 := hrefs z
    by_cases hzx : z = x
    · subst hzx
      simp only [List.getElem?_set_self hlt, Option.some.injEq] at hz'
      subst hz'
      rw [put_rc]
      have := hinv.live z o ho hd
      omega
    · simp only [List.getElem?_set_ne (Ne.symm hzx)] at hz'
      have := hinv.live z oz hz' hzd
      omega
  · intro z oz hz hzd
    have hz' : (s.heap.set x (o.put f v))[z]? = some oz := hz
    have h5 := hrefs z
    by_cases hzx : z = x
    · subst hzx
      simp only [List.getElem?_set_self hlt, Option.some.injEq] at hz'
      subst hz'
      rw [put_dead, hd] at hzd
      cases hzd
    · simp only [List.getElem?_set_ne (Ne.symm hzx)] at hz'
      obtain ⟨h1, h2, h3, h4⟩ := hinv.deadObj z oz hz' hzd
      exact ⟨h1, h2, by omega, by omega⟩
  · intro z hz
    have hz' : s.heap.length ≤ z := by
      have : (s.heap.set x (o.put f v)).length ≤ z := hz
      rwa [List.length_set] at this
    have h0 := hinv.credOut z hz'
    have : ind z (o.get f) = 0 := by
      unfold ind; split
      · rename_i hh
        have hor : o.a = some z ∨ o.b = some z := by
          cases f with
          | a => exact Or.inl hh
          | b => exact Or.inr hh
        have := hinv.fieldsWF x o z ho hor; omega
      · rfl
    omega

/-- counts are exact: nothing is credited -/
def Inv (s : St) : Prop := InvC s (fun _ => 0)

theorem retain_some (s : St) (x : Nat) (o : LObj) (h : s.heap[x]? = some o) :
    retain s (some x) = { s with heap := s.heap.set x { o with rc := o.rc + 1 } } := by simp [retain, h]

theorem retain_miss (s : St) (x : Nat) (h : s.heap[x]? = none) : retain s (some x) = s := by simp [retain, h]

theorem retain_slots (s : St) (v : Option Nat) : (retain s v).slots = s.slots := by
  cases v with
  | none => rfl
  | some x =>
    cases h : s.heap[x]? with
    | none => rw [retain_miss s x h]
    | some o => rw [retain_some s x o h]

theorem retain_length (s : St) (v : Option Nat) : (retain s v).heap.length = s.heap.length := by
  cases v with
  | none => rfl
  | some x =>
    cases h : s.heap[x]? with
    | none => rw [retain_miss s x h]
    | some o => rw [retain_some s x o h]; simp

theorem retain_get (s : St) (v : Option Nat) (x : Nat) (o : LObj) (ho : s.heap[x]? = some o) :
    ∃ o1, (retain s v).heap[x]? = some o1 ∧ o1.dead = o.dead ∧ o1.a = o.a ∧ o1.b = o.b := by
  cases v with
  | none => exact ⟨o, ho, rfl, rfl, rfl⟩
  | some w =>
    cases hw : s.heap[w]? with
    | none => rw [retain_miss s w hw]; exact ⟨o, ho, rfl, rfl, rfl⟩
    | some ow =>
      rw [retain_some s w ow hw]
      obtain ⟨hl, _⟩ := List.getElem?_eq_some_iff.mp hw
      by_cases hxw : x = w
      · subst hxw
        rw [ho] at hw; cases hw
        exact ⟨{ o with rc := o.rc + 1 }, by simp [List.getElem?_set_self hl], rfl, rfl, rfl⟩
      · refine ⟨o, ?_, rfl, rfl, rfl⟩
        show (s.heap.set w _)[x]? = some o
        rw [List.getElem?_set_ne (Ne.symm hxw)]; exact ho

/-- shared_ptr assignment to a slot -/
theorem assignSlot_inv (s : St) (d : Nat) (v : Option Nat) (hinv : Inv s) (hd : d < s.slots.length)
    (hv : ∀ x, v = some x → ∃ o, s.heap[x]? = some o ∧ o.dead = false) :
    Inv (assignSlot s d v) ∧ (assignSlot s d v).slots.length = s.slots.length := by
  unfold assignSlot
  have h1 : InvC (retain s v) (fun y => 0 + ind y v) := retain_spec s (fun _ => 0) hinv v hv
  have hd1 : d < (retain s v).slots.length := by rw [retain_slots]; exact hd
  have h2 := setSlot_spec (retain s v) (fun _ => 0) d v h1 hd1
  have hold : getSlot (retain s v) d = getSlot s d := by unfold getSlot; rw [retain_slots]
  rw [hold] at h2
  obtain ⟨h3, _, h5, _⟩ := release_spec (setSlotRaw (retain s v) d v).heap.length (setSlotRaw (retain s v) d v)
    (fun _ => 0) (getSlot s d) h2 (liveCount_le_length _)
  refine ⟨h3, ?_⟩
  show (release _ _ _).slots.length = _
  rw [h5]
  simp [setSlotRaw, retain_slots]

theorem inv_out (s : St) (l : List String) (h : Inv s) : Inv { s with out := l } :=
  ⟨h.slotsWF, h.fieldsWF, h.live, h.deadObj, h.credOut⟩

/-- slot indices a primitive writes stay inside the frame -/
def Prim.wf (n : Nat) : Prim → Prop
  | .new d _ => d < n
  | .load _ d _ => d < n
  | .mov d _ => d < n
  | .clr d => d < n
  | _ => True

theorem prim_inv (s : St) (p : Prim) (hinv : Inv s) (hp : Prim.wf s.slots.length p) :
    Inv (prim s p) ∧ (prim s p).slots.length = s.slots.length := by
  cases p with
  | new d id =>
    have hd : d < s.slots.length := hp
    simp only [prim]
    -- the fresh object carries one credit: the reference the slot is about to take
    have h1 : InvC { s with heap := s.heap ++ [{ id := id, rc := 1 }] } (fun y => 0 + ind y (some s.heap.length)) := by
      have hrefs : ∀ y, refs { s with heap := s.heap ++ [{ id := id, rc := 1 }] } y = refs s y := by
        intro y
        rw [refs_append]
        simp [objRefs, ind]
      refine ⟨?_, ?_, ?_, ?_, ?_⟩
      · intro d' y hy
        have := hinv.slotsWF d' y hy
        simp only [List.length_append, List.length_cons, List.length_nil]; omega
      · intro z oz y hz hy
        simp only [List.length_append, List.length_cons, List.length_nil]
        have hz' : (s.heap ++ [({ id := id, rc := 1 } : LObj)])[z]? = some oz := hz
        by_cases hzl : z < s.heap.length
        · rw [List.getElem?_append_left hzl] at hz'
          have := hinv.fieldsWF z oz y hz' hy; omega
        · rw [List.getElem?_append_right (Nat.le_of_not_lt hzl)] at hz'
          cases hk : z - s.heap.length with
          | zero => rw [hk] at hz'; simp at hz'; subst hz'; simp at hy
          | succ k => rw [hk] at hz'; simp at hz'
      · intro z oz hz hzd
        rw [hrefs]
        have hz' : (s.heap ++ [({ id := id, rc := 1 } : LObj)])[z]? = some oz := hz
        by_cases hzl : z < s.heap.length
        · rw [List.getElem?_append_left hzl] at hz'
          have := hinv.live z oz hz' hzd
          have hne : z ≠ s.heap.length := by omega
          rw [ind_ne hne]; omega
        · rw [List.getElem?_append_right (Nat.le_of_not_lt hzl)] at hz'
          cases hk : z - s.heap.length with
          | zero =>
            rw [hk] at hz'; simp at hz'; subst hz'
            have hz0 : z = s.heap.length := by omega
            rw [hz0, ind_self, refs_out_of_range hinv _ (Nat.le_refl _)]
          | succ k => rw [hk] at hz'; simp at hz'
      · intro z oz hz hzd
        rw [hrefs]
        have hz' : (s.heap ++ [({ id := id, rc := 1 } : LObj)])[z]? = some oz := hz
        by_cases hzl : z < s.heap.length
        · rw [List.getElem?_append_left hzl] at hz'
          obtain ⟨a1, a2, a3, a4⟩ := hinv.deadObj z oz hz' hzd
          have hne : z ≠ s.heap.length := by omega
          rw [ind_ne hne]
          exact ⟨a1, a2, a3, rfl⟩
        · rw [List.getElem?_append_right (Nat.le_of_not_lt hzl)] at hz'
          cases hk : z - s.heap.length with
          | zero => rw [hk] at hz'; simp at hz'; subst hz'; simp at hzd
          | succ k => rw [hk] at hz'; simp at hz'
      · intro z hz
        simp only [List.length_append, List.length_cons, List.length_nil] at hz
        have hne : z ≠ s.heap.length := by omega
        rw [ind_ne hne]
    have h2 := setSlot_spec _ (fun _ => 0) d (some s.heap.length) h1 hd
    have hold : getSlot { s with heap := s.heap ++ [({ id := id, rc := 1 } : LObj)] } d = getSlot s d := rfl
    rw [hold] at h2
    obtain ⟨h3, _, h5, _⟩ := release_spec _ _ (fun _ => 0) (getSlot s d) h2 (liveCount_le_length _)
    refine ⟨h3, ?_⟩
    rw [h5]; simp [setSlotRaw]
  | set f d src =>
    simp only [prim]
    cases hx : getSlot s d with
    | none => exact ⟨hinv, rfl⟩
    | some x =>
      simp only
      obtain ⟨o, ho, hod⟩ := slot_live hinv d x hx
      rw [ho]
      simp only
      have hv := slot_live hinv src
      have h1 : InvC (retain s (getSlot s src)) (fun y => 0 + ind y (getSlot s src)) :=
        retain_spec s (fun _ => 0) hinv _ hv
      obtain ⟨o1, ho1, hd1, ha1, hb1⟩ := retain_get s (getSlot s src) x o ho
      rw [ho1]
      simp only
      have hd1' : o1.dead = false := by rw [hd1]; exact hod
      have h2 := setField_spec _ (fun _ => 0) x o1 f (getSlot s src) h1 ho1 hd1'
      have hget : o1.get f = o.get f := by cases f <;> simp [LObj.get, ha1, hb1]
      rw [hget] at h2
      obtain ⟨h3, _, h5, _⟩ := release_spec _ _ (fun _ => 0) (o.get f) h2 (liveCount_le_length _)
      refine ⟨h3, ?_⟩
      rw [h5]; simp [retain_slots]
  | load f d src =>
    have hd : d < s.slots.length := hp
    simp only [prim]
    cases hx : getSlot s src with
    | none => exact ⟨hinv, rfl⟩
    | some x =>
      simp only
      obtain ⟨o, ho, hod⟩ := slot_live hinv src x hx
      rw [ho]
      exact assignSlot_inv s d (o.get f) hinv hd (field_live hinv x o ho hod f)
  | mov d src => exact assignSlot_inv s d (getSlot s src) hinv hp (slot_live hinv src)
  | clr d => exact assignSlot_inv s d none hinv hp (fun x h => by cases h)
  | «show» d =>
    simp only [prim]
    split <;> exact ⟨inv_out _ _ hinv, rfl⟩
  | showA d =>
    simp only [prim]
    split
    · split
      · split <;> exact ⟨inv_out _ _ hinv, rfl⟩
      · exact ⟨inv_out _ _ hinv, rfl⟩
    · exact ⟨inv_out _ _ hinv, rfl⟩
  | showNN d =>
    simp only [prim]
    split
    · exact ⟨inv_out _ _ hinv, rfl⟩
    · exact ⟨hinv, rfl⟩

theorem init_inv : Inv initSt := by
  refine ⟨?_, ?_, ?_, ?_, ?_⟩
  · intro d y hy
    have : getSlot initSt d = none := by
      unfold getSlot initSt
      simp only
      rw [List.getElem?_replicate]
      split <;> rfl
    rw [this] at hy; cases hy
  · intro x o y hx; simp [initSt] at hx
  · intro x o hx; simp [initSt] at hx
  · intro x o hx; simp [initSt] at hx
  · intro x _; rfl

theorem exec_inv : ∀ (ps : List Prim) (s : St), Inv s → (∀ p ∈ ps, Prim.wf s.slots.length p) → Inv (exec ps s)
  | [], s, h, _ => h
  | p :: ps, s, h, hw => by
    obtain ⟨h1, h2⟩ := prim_inv s p h (hw p (List.mem_cons_self))
    exact exec_inv ps (prim s p) h1 (fun q hq => by rw [h2]; exact hw q (List.mem_cons_of_mem _ hq))

/-! ## a live object always has a positive count; destructor lines count deaths -/

@[reducible] def Pos (s : St) : Prop := ∀ (x : Nat) (o : LObj), s.heap[x]? = some o → o.dead = false → 1 ≤ o.rc

theorem pos_of_heap_eq {s t : St} (hp : Pos s) (h : t.heap = s.heap) : Pos t := by
  intro x o hx; rw [h] at hx; exact hp x o hx

theorem pos_set {s : St} (hp : Pos s) (x : Nat) (o' : LObj) (h : o'.dead = false → 1 ≤ o'.rc) :
    Pos { s with heap := s.heap.set x o' } := by
  intro z oz hz hzd
  have hz' : (s.heap.set x o')[z]? = some oz := hz
  by_cases hzx : z = x
  · subst hzx
    by_cases hl : z < s.heap.length
    · simp only [List.getElem?_set_self hl, Option.some.injEq] at hz'
      subst hz'; exact h hzd
    · rw [List.getElem?_eq_none (by simpa using Nat.le_of_not_lt hl)] at hz'; cases hz'
  · rw [List.getElem?_set_ne (Ne.symm hzx)] at hz'
    exact hp z oz hz' hzd

theorem pos_retain {s : St} (hp : Pos s) (v : Option Nat) : Pos (retain s v) := by
  cases v with
  | none => exact hp
  | some x =>
    cases h : s.heap[x]? with
    | none => rw [retain_miss s x h]; exact hp
    | some o => rw [retain_some s x o h]; exact pos_set hp x _ (fun _ => by show 1 ≤ o.rc + 1; omega)

theorem release_none (fuel : Nat) (s : St) : release fuel s none = s := by cases fuel <;> rfl

theorem release_zero (s : St) (v : Option Nat) : release 0 s v = s := by cases v <;> rfl

theorem release_miss (fuel : Nat) (s : St) (x : Nat) (h : s.heap[x]? = none) : release (fuel + 1) s (some x) = s := by
  rw [release]; simp only [h]

theorem release_dead (fuel : Nat) (s : St) (x : Nat) (o : LObj) (h : s.heap[x]? = some o) (hd : o.dead = true) :
    release (fuel + 1) s (some x) = s := by
  rw [release]; simp only [h]; rw [if_pos hd]

/-- a case principle for `release` that the remaining lemmas share -/
theorem release_cases (P : St → St → Prop) (hrefl : ∀ s, P s s)
    (hdec : ∀ s x o, s.heap[x]? = some o → o.dead = false → o.rc > 1 → P s (decSt s x o))
    (hkill : ∀ s x o t, s.heap[x]? = some o → o.dead = false → P (killSt s x o) t → P s t)
    (htrans : ∀ s t u, P s t → P t u → P s u) :
    ∀ fuel s v, P s (release fuel s v) := by
  intro fuel
  induction fuel with
  | zero => intro s v; rw [release_zero]; exact hrefl s
  | succ fuel ih =>
    intro s v
    cases v with
    | none => rw [release_none]; exact hrefl s
    | some x =>
      cases h : s.heap[x]? with
      | none => rw [release_miss fuel s x h]; exact hrefl s
      | some o =>
        cases hd : o.dead with
        | true => rw [release_dead fuel s x o h hd]; exact hrefl s
        | false =>
          rw [release_succ fuel s x o h hd]
          by_cases hgt : o.rc > 1
          · rw [if_pos hgt]; exact hdec s x o h hd hgt
          · rw [if_neg hgt]
            exact hkill s x o _ h hd (htrans _ _ _ (ih (killSt s x o) o.a) (ih _ o.b))

theorem pos_release {s : St} (hp : Pos s) (fuel : Nat) (v : Option Nat) : Pos (release fuel s v) := by
  have := release_cases (fun s t => Pos s → Pos t) (fun _ h => h)
    (fun s x o _ _ hgt hp => pos_set hp x _ (fun _ => by show 1 ≤ o.rc - 1; omega))
    (fun s x o t _ _ ih hp => ih (pos_of_heap_eq (pos_set hp x (kill o) (fun h => by simp [kill] at h)) rfl))
    (fun _ _ _ h1 h2 hp => h2 (h1 hp)) fuel s v
  exact this hp

/-- one destructor line per death, no other line, nothing comes back to life -/
theorem release_lines (fuel : Nat) (s : St) (v : Option Nat) :
    (release fuel s v).out.length + liveCount (release fuel s v) = s.out.length + liveCount s := by
  refine release_cases (fun s t => t.out.length + liveCount t = s.out.length + liveCount s) (fun _ => rfl)
    ?_ ?_ (fun _ _ _ h1 h2 => by omega) fuel s v
  · intro s x o ho hd _
    obtain ⟨hlt, hget⟩ := List.getElem?_eq_some_iff.mp ho
    have := liveCount_setHeap s x { o with rc := o.rc - 1 } hlt
    rw [hget] at this
    have e : liveCount (decSt s x o) = liveCount { s with heap := s.heap.set x { o with rc := o.rc - 1 } } := rfl
    have e2 : ({ o with rc := o.rc - 1 } : LObj).dead = o.dead := rfl
    have e3 : (decSt s x o).out = s.out := rfl
    rw [e2] at this
    rw [e3]; omega
  · intro s x o t ho hd ih
    obtain ⟨hlt, hget⟩ := List.getElem?_eq_some_iff.mp ho
    have := liveCount_setHeap s x (kill o) hlt
    rw [hget] at this
    have e : liveCount (killSt s x o) = liveCount { s with heap := s.heap.set x (kill o) } := rfl
    have e2 : (kill o).dead = true := rfl
    have e3 : (killSt s x o).out.length = s.out.length + 1 := by simp [killSt]
    rw [e2, hd] at this
    simp at this
    omega

theorem pos_assignSlot {s : St} (hp : Pos s) (d : Nat) (v : Option Nat) : Pos (assignSlot s d v) := by
  show Pos (release _ (setSlotRaw (retain s v) d v) _)
  exact pos_release (pos_of_heap_eq (t := setSlotRaw (retain s v) d v) (pos_retain hp v) rfl) _ _

theorem pos_prim (s : St) (p : Prim) (hp : Pos s) : Pos (prim s p) := by
  cases p with
  | new d id =>
    simp only [prim]
    apply pos_release
    refine pos_of_heap_eq (s := { s with heap := s.heap ++ [{ id := id, rc := 1 }] }) ?_ rfl
    intro z oz hz hzd
    have hz' : (s.heap ++ [({ id := id, rc := 1 } : LObj)])[z]? = some oz := hz
    by_cases hzl : z < s.heap.length
    · rw [List.getElem?_append_left hzl] at hz'; exact hp z oz hz' hzd
    · rw [List.getElem?_append_right (Nat.le_of_not_lt hzl)] at hz'
      cases hk : z - s.heap.length with
      | zero => rw [hk] at hz'; simp at hz'; subst hz'; exact Nat.le_refl _
      | succ k => rw [hk] at hz'; simp at hz'
  | set f d src =>
    simp only [prim]
    split
    · split
      · split
        · rename_i o1 ho1
          apply pos_release
          apply pos_set (pos_retain hp _)
          intro h
          rw [put_rc]; rw [put_dead] at h
          exact pos_retain hp _ _ o1 ho1 h
        · exact pos_retain hp _
      · exact hp
    · exact hp
  | load f d src =>
    simp only [prim]
    split
    · split
      · exact pos_assignSlot hp _ _
      · exact hp
    · exact hp
  | mov d src => exact pos_assignSlot hp _ _
  | clr d => exact pos_assignSlot hp _ _
  | «show» d => simp only [prim]; split <;> exact pos_of_heap_eq hp rfl
  | showA d =>
    simp only [prim]
    split
    · split
      · split <;> exact pos_of_heap_eq hp rfl
      · exact pos_of_heap_eq hp rfl
    · exact pos_of_heap_eq hp rfl
  | showNN d =>
    simp only [prim]
    split
    · exact pos_of_heap_eq hp rfl
    · exact hp

theorem exec_pos : ∀ (ps : List Prim) (s : St), Pos s → Pos (exec ps s)
  | [], _, h => h
  | p :: ps, s, h => exec_pos ps (prim s p) (pos_prim s p h)

theorem init_pos : Pos initSt := by intro x o hx; simp [initSt] at hx

/-- the programs the heap generator writes use slots 0..8 -/
def Op.wf : Gc.Op → Prop
  | .new v _ => v < 9
  | .geta _ w => w < 9
  | .getb _ w => w < 9
  | .null v => v < 9
  | .link v _ _ => v < 9
  | _ => True

theorem churn_wf : ∀ n, ∀ p ∈ Gc.churnPrims n, Prim.wf 9 p
  | 0 => by intro p hp; simp [Gc.churnPrims] at hp
  | n + 1 => by
    intro p hp
    simp only [Gc.churnPrims, List.mem_append, List.mem_cons] at hp
    rcases hp with hp | hp
    · rcases hp with h | h | h | h | h | h | h <;> first | (subst h; simp [Prim.wf]) | (simp at h)
    · exact churn_wf n p hp

theorem walk_wf : ∀ n, ∀ p ∈ Gc.walkPrims n, Prim.wf 9 p
  | 0 => by intro p hp; simp [Gc.walkPrims] at hp
  | n + 1 => by
    intro p hp
    simp only [Gc.walkPrims, List.mem_append, List.mem_cons] at hp
    rcases hp with hp | hp
    · rcases hp with h | h | h <;> first | (subst h; simp [Prim.wf]) | (simp at h)
    · exact walk_wf n p hp

theorem compile_wf (op : Gc.Op) (h : Op.wf op) : ∀ p ∈ Gc.compile op, Prim.wf 9 p := by
  intro p hp
  cases op with
  | new v id => simp [Gc.compile] at hp; subst hp; exact h
  | seta v w => simp [Gc.compile] at hp; subst hp; trivial
  | setb v w => simp [Gc.compile] at hp; subst hp; trivial
  | geta v w => simp [Gc.compile] at hp; subst hp; exact h
  | getb v w => simp [Gc.compile] at hp; subst hp; exact h
  | null v => simp [Gc.compile] at hp; subst hp; exact h
  | «show» v => simp [Gc.compile] at hp; subst hp; trivial
  | showa v => simp [Gc.compile] at hp; subst hp; trivial
  | churn n => exact churn_wf n p hp
  | link v id1 id2 =>
    simp only [Gc.compile, List.mem_append, List.mem_cons] at hp
    rcases hp with (hp | hp) | hp
    · rcases hp with h1 | h1 <;> first | (subst h1; simp [Prim.wf]) | (simp at h1)
    · exact churn_wf 2 p hp
    · rcases hp with h1 | h1 | h1 | h1 | h1 | h1 | h1 <;>
        first | (subst h1; first | exact h | simp [Prim.wf]) | (simp at h1)
  | walk v k =>
    simp only [Gc.compile, List.mem_append, List.mem_cons] at hp
    rcases hp with (hp | hp) | hp
    · rcases hp with h1 | h1 <;> first | (subst h1; simp [Prim.wf]) | (simp at h1)
    · exact walk_wf k p hp
    · rcases hp with h1 | h1 <;> first | (subst h1; simp [Prim.wf]) | (simp at h1)

theorem runOps_inv (ops : List Gc.Op) (h : ∀ op ∈ ops, Op.wf op) : Inv (runOps ops) ∧ Pos (runOps ops) := by
  refine ⟨exec_inv _ _ init_inv ?_, exec_pos _ _ init_pos⟩
  intro p hp
  obtain ⟨op, hop, hpo⟩ := List.mem_flatMap.mp hp
  have : initSt.slots.length = 9 := by simp [initSt]
  rw [this]
  exact compile_wf op (h op hop) p hpo

end BlochVerif.Life
