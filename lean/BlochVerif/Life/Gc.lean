import BlochVerif.Life.Proofs
import BlochVerif.Gc.Sim
/-!
# Reference counting and the cycle collector together (C11 with destructors)

`Life.Model` with a collection possible before every primitive step.  A collection clears the fields of every object no
slot reaches (the implementation then drops those objects without running their destructors); references from such
garbage to objects that are still in use are *not* released (the implementation parks them in `m_limbo`), so the counts
of live objects — and with them the moment their destructors run — do not depend on when the collector happened to run.
The theorem: under every schedule the output, destructor lines included, is that of the run without collections.
-/
namespace BlochVerif.Life
open BlochVerif.Gc (Fld Prim Reach WFHeap succs markRoots)

def view (o : LObj) : Gc.Obj := { id := o.id, a := o.a, b := o.b }
def hv (h : List LObj) : Gc.Heap := h.map view
def roots (s : St) : List Nat := s.slots.filterMap id

/-- sweep: the fields of unmarked objects are cleared; counts stay as they are (limbo) -/
def lsweep (h : List LObj) (marked : List Nat) : List LObj :=
  h.zipIdx.map (fun (o, i) => if i ∈ marked then o else { o with a := none, b := none })

def lcollect (s : St) : St := { s with heap := lsweep s.heap (markRoots (hv s.heap) (roots s)) }

def gcPoint (sched : Nat → Bool) (k : Nat) (s : St) : St := if sched k then lcollect s else s

/-- the scheduled run: before the `k`-th primitive step a collection happens iff `sched k` -/
def execS (sched : Nat → Bool) : Nat → List Prim → St → St
  | _, [], s => s
  | k, p :: ps, s => execS sched (k + 1) ps (prim (gcPoint sched k s) p)

/-! ### the view -/

theorem hv_get (h : List LObj) (i : Nat) : (hv h)[i]? = (h[i]?).map view := by simp [hv]
theorem hv_length (h : List LObj) : (hv h).length = h.length := by simp [hv]

theorem succs_hv (h : List LObj) (x : Nat) :
    succs (hv h) x = match h[x]? with
      | some o => o.a.toList ++ o.b.toList
      | none => [] := by
  unfold succs
  rw [hv_get]
  cases h[x]? <;> rfl

theorem succs_hv_congr {h1 h2 : List LObj} {x : Nat} (he : h1[x]? = h2[x]?) : succs (hv h1) x = succs (hv h2) x := by
  rw [succs_hv, succs_hv, he]

theorem lsweep_length (h : List LObj) (m : List Nat) : (lsweep h m).length = h.length := by simp [lsweep]

theorem lsweep_get (h : List LObj) (m : List Nat) (i : Nat) :
    (lsweep h m)[i]? = (h[i]?).map (fun o => if i ∈ m then o else { o with a := none, b := none }) := by
  simp only [lsweep, List.getElem?_map, List.getElem?_zipIdx]
  cases h[i]? <;> simp

theorem lsweep_get_marked (h : List LObj) (m : List Nat) (i : Nat) (hi : i ∈ m) : (lsweep h m)[i]? = h[i]? := by
  rw [lsweep_get]; cases h[i]? <;> simp [hi]

theorem succs_lsweep_sub (h : List LObj) (m : List Nat) (x y : Nat) (hy : y ∈ succs (hv (lsweep h m)) x) :
    y ∈ succs (hv h) x := by
  rw [succs_hv] at hy ⊢
  rw [lsweep_get] at hy
  cases hx : h[x]? with
  | none => simp [hx] at hy
  | some o =>
    simp only [hx, Option.map_some] at hy
    split at hy
    · exact hy
    · simp at hy

/-! ### the simulation relation: `s1` runs with collections, `s2` without; `extra` are references in flight (the old
content of a slot or field on its way to `release`) -/

structure LSim (extra : List Nat) (s1 s2 : St) : Prop where
  slots : s1.slots = s2.slots
  out : s1.out = s2.out
  len : s1.heap.length = s2.heap.length
  agree : ∀ i, Reach (hv s2.heap) (roots s2 ++ extra) i → s1.heap[i]? = s2.heap[i]?
  wf1 : WFHeap (hv s1.heap)
  wf2 : WFHeap (hv s2.heap)
  rootsValid : ∀ r ∈ roots s2 ++ extra, r < s2.heap.length

theorem LSim.roots_eq {e : List Nat} {s1 s2 : St} (h : LSim e s1 s2) : roots s1 = roots s2 := by
  unfold Life.roots; rw [h.slots]

theorem LSim.getSlot_eq {e : List Nat} {s1 s2 : St} (h : LSim e s1 s2) (d : Nat) : getSlot s1 d = getSlot s2 d := by
  unfold Life.getSlot; rw [h.slots]

/-- fewer references in flight: still related -/
theorem LSim.weaken {e e' : List Nat} {s1 s2 : St} (h : LSim e s1 s2)
    (hsub : ∀ r ∈ e', Reach (hv s2.heap) (roots s2 ++ e) r) : LSim e' s1 s2 := by
  have hall : ∀ r ∈ roots s2 ++ e', Reach (hv s2.heap) (roots s2 ++ e) r := by
    intro r hr
    rcases List.mem_append.mp hr with h1 | h1
    · exact Reach.root (List.mem_append_left _ h1)
    · exact hsub r h1
  refine ⟨h.slots, h.out, h.len, fun i hi => h.agree i (Gc.reach_mono_roots hall i hi), h.wf1, h.wf2, ?_⟩
  intro r hr
  have := Gc.reach_lt h.wf2 (by rw [hv_length]; exact h.rootsValid) r (hall r hr)
  rwa [hv_length] at this

theorem LSim.init : LSim [] initSt initSt := by
  refine ⟨rfl, rfl, rfl, fun _ _ => rfl, ?_, ?_, ?_⟩
  · intro x y hy; simp [succs_hv, initSt] at hy
  · intro x y hy; simp [succs_hv, initSt] at hy
  · intro r hr
    have : roots initSt = [] := by simp [roots, initSt]
    rw [this] at hr; cases hr

/-- a collection on the left keeps the relation: nothing the roots reach is touched -/
theorem lcollect_sim {s1 s2 : St} (h : LSim [] s1 s2) : LSim [] (lcollect s1) s2 := by
  have hroots := h.roots_eq
  refine ⟨h.slots, h.out, by simp [lcollect, lsweep_length, h.len], ?_, ?_, h.wf2, h.rootsValid⟩
  · intro i hi
    have hi2 : Reach (hv s2.heap) (roots s2) i := by simpa using hi
    have hag : ∀ j, Reach (hv s2.heap) (roots s2) j → (hv s1.heap)[j]? = (hv s2.heap)[j]? := by
      intro j hj
      rw [hv_get, hv_get, h.agree j (by simpa using hj)]
    have h1 : Reach (hv s1.heap) (roots s1) i := by
      rw [hroots]; exact Gc.reach_transfer hag i hi2
    have hrv : ∀ r ∈ roots s1, r < (hv s1.heap).length := by
      intro r hr
      rw [hv_length, h.len]
      exact h.rootsValid r (by rw [hroots] at hr; simpa using hr)
    have hm : i ∈ markRoots (hv s1.heap) (roots s1) := Gc.mark_complete (hv s1.heap) h.wf1 (roots s1) hrv i h1
    show (lsweep s1.heap (markRoots (hv s1.heap) (roots s1)))[i]? = s2.heap[i]?
    rw [lsweep_get_marked _ _ _ hm]
    exact h.agree i hi
  · intro x y hy
    show y < (hv (lsweep s1.heap _)).length
    rw [hv_length, lsweep_length, ← hv_length]
    exact h.wf1 x y (succs_lsweep_sub _ _ x y hy)

theorem gcPoint_sim {s1 s2 : St} (sched : Nat → Bool) (k : Nat) (h : LSim [] s1 s2) : LSim [] (gcPoint sched k s1) s2 := by
  unfold gcPoint
  split
  · exact lcollect_sim h
  · exact h

/-! ### heap updates at reachable objects -/

theorem succs_hv_set_other (h : List LObj) (x z : Nat) (o : LObj) (hne : z ≠ x) :
    succs (hv (h.set x o)) z = succs (hv h) z := by
  rw [succs_hv, succs_hv, List.getElem?_set_ne (Ne.symm hne)]

theorem succs_hv_set_self (h : List LObj) (x : Nat) (o : LObj) (hx : x < h.length) :
    succs (hv (h.set x o)) x = o.a.toList ++ o.b.toList := by
  rw [succs_hv, List.getElem?_set_self hx]

/-- replacing an object by one whose references all were reachable does not make anything new reachable -/
theorem reach_set_sub {h : List LObj} {R : List Nat} {x : Nat} {o' : LObj}
    (hs : ∀ y ∈ o'.a.toList ++ o'.b.toList, Reach (hv h) R y) :
    ∀ i, Reach (hv (h.set x o')) R i → Reach (hv h) R i := by
  intro i hi
  induction hi with
  | root hr => exact Reach.root hr
  | step hz hy ih =>
    rename_i z y
    by_cases hzx : z = x
    · subst hzx
      by_cases hl : z < h.length
      · rw [succs_hv_set_self h z o' hl] at hy
        exact hs y hy
      · have : h.set z o' = h := List.set_eq_of_length_le (Nat.le_of_not_lt hl)
        rw [this] at hy
        exact Reach.step ih hy
    · rw [succs_hv_set_other h x z o' hzx] at hy
      exact Reach.step ih hy

theorem wf_hv_set {h : List LObj} {x : Nat} {o' : LObj} (hwf : WFHeap (hv h))
    (hs : ∀ y ∈ o'.a.toList ++ o'.b.toList, y < h.length) : WFHeap (hv (h.set x o')) := by
  intro z y hy
  rw [hv_length, List.length_set]
  by_cases hzx : z = x
  · subst hzx
    by_cases hl : z < h.length
    · rw [succs_hv_set_self h z o' hl] at hy; exact hs y hy
    · have : h.set z o' = h := List.set_eq_of_length_le (Nat.le_of_not_lt hl)
      rw [this] at hy
      have := hwf z y hy
      rwa [hv_length] at this
  · rw [succs_hv_set_other h x z o' hzx] at hy
    have := hwf z y hy
    rwa [hv_length] at this

/-- the same replacement at a reachable object on both sides -/
theorem sim_set {e : List Nat} {s1 s2 : St} (h : LSim e s1 s2) (x : Nat) (o' : LObj)
    (hs : ∀ y ∈ o'.a.toList ++ o'.b.toList, Reach (hv s2.heap) (roots s2 ++ e) y) :
    LSim e { s1 with heap := s1.heap.set x o' } { s2 with heap := s2.heap.set x o' } := by
  have hlt : ∀ y ∈ o'.a.toList ++ o'.b.toList, y < s2.heap.length := by
    intro y hy
    have := Gc.reach_lt h.wf2 (by rw [hv_length]; exact h.rootsValid) y (hs y hy)
    rwa [hv_length] at this
  refine ⟨h.slots, h.out, by simp [h.len], ?_, ?_, ?_, ?_⟩
  · intro i hi
    have hi' : Reach (hv s2.heap) (roots s2 ++ e) i := reach_set_sub hs i hi
    show (s1.heap.set x o')[i]? = (s2.heap.set x o')[i]?
    by_cases hix : i = x
    · subst hix
      have hl : i < s2.heap.length := by
        have := Gc.reach_lt h.wf2 (by rw [hv_length]; exact h.rootsValid) i hi'
        rwa [hv_length] at this
      rw [List.getElem?_set_self (by rw [h.len]; exact hl), List.getElem?_set_self hl]
    · rw [List.getElem?_set_ne (Ne.symm hix), List.getElem?_set_ne (Ne.symm hix)]
      exact h.agree i hi'
  · exact wf_hv_set h.wf1 (by rw [h.len]; exact hlt)
  · exact wf_hv_set h.wf2 hlt
  · intro r hr
    show r < (s2.heap.set x o').length
    rw [List.length_set]; exact h.rootsValid r hr

theorem sim_out {e : List Nat} {s1 s2 : St} (h : LSim e s1 s2) (l : List String) :
    LSim e { s1 with out := s1.out ++ l } { s2 with out := s2.out ++ l } :=
  ⟨h.slots, by simp [h.out], h.len, h.agree, h.wf1, h.wf2, h.rootsValid⟩

/-- a reachable object is the same on both sides -/
theorem LSim.get_eq {e : List Nat} {s1 s2 : St} (h : LSim e s1 s2) (x : Nat)
    (hx : Reach (hv s2.heap) (roots s2 ++ e) x) : s1.heap[x]? = s2.heap[x]? := h.agree x hx

theorem reach_field {h : List LObj} {R : List Nat} {x y : Nat} {o : LObj} (hx : Reach (hv h) R x) (ho : h[x]? = some o)
    (hy : y ∈ o.a.toList ++ o.b.toList) : Reach (hv h) R y :=
  Reach.step hx (by rw [succs_hv, ho]; exact hy)

/-! ### `release` -/

theorem opt_toList_some (x : Nat) : (some x : Option Nat).toList = [x] := rfl

/-- releasing a reference in flight behaves the same on both sides — count down, or destructor line, kill and cascade —
and afterwards the reference is gone from flight -/
theorem release_sim : ∀ (fuel : Nat) (s1 s2 : St) (v : Option Nat) (e : List Nat),
    LSim (v.toList ++ e) s1 s2 → LSim e (release fuel s1 v) (release fuel s2 v) := by
  intro fuel
  induction fuel with
  | zero =>
    intro s1 s2 v e h
    rw [release_zero, release_zero]
    exact h.weaken (fun r hr => Reach.root (List.mem_append_right _ (List.mem_append_right _ hr)))
  | succ fuel ih =>
    intro s1 s2 v e h
    have hdrop : LSim e s1 s2 :=
      h.weaken (fun r hr => Reach.root (List.mem_append_right _ (List.mem_append_right _ hr)))
    cases v with
    | none => rw [release_none, release_none]; exact hdrop
    | some x =>
      have hxr : Reach (hv s2.heap) (roots s2 ++ ((some x).toList ++ e)) x :=
        Reach.root (List.mem_append_right _ (List.mem_append_left _ (by simp)))
      have heq := h.agree x hxr
      cases ho : s2.heap[x]? with
      | none =>
        rw [release_miss fuel s2 x ho, release_miss fuel s1 x (by rw [heq, ho])]
        exact hdrop
      | some o =>
        have ho1 : s1.heap[x]? = some o := by rw [heq, ho]
        cases hd : o.dead with
        | true =>
          rw [release_dead fuel s2 x o ho hd, release_dead fuel s1 x o ho1 hd]
          exact hdrop
        | false =>
          rw [release_succ fuel s2 x o ho hd, release_succ fuel s1 x o ho1 hd]
          have hfield : ∀ y ∈ o.a.toList ++ o.b.toList, Reach (hv s2.heap) (roots s2 ++ ((some x).toList ++ e)) y :=
            fun y hy => reach_field hxr ho hy
          by_cases hgt : o.rc > 1
          · rw [if_pos hgt, if_pos hgt]
            have h1 := sim_set h x { o with rc := o.rc - 1 } hfield
            exact h1.weaken (fun r hr => Reach.root (List.mem_append_right _ (List.mem_append_right _ hr)))
          · rw [if_neg hgt, if_neg hgt]
            -- the fields join the references in flight, then the object is emptied on both sides
            have h1 : LSim (x :: (o.a.toList ++ (o.b.toList ++ e))) s1 s2 := by
              apply h.weaken
              intro r hr
              rcases List.mem_cons.mp hr with rfl | hr
              · exact hxr
              · rcases List.mem_append.mp hr with h2 | hr
                · exact hfield r (List.mem_append_left _ h2)
                · rcases List.mem_append.mp hr with h2 | h2
                  · exact hfield r (List.mem_append_right _ h2)
                  · exact Reach.root (List.mem_append_right _ (List.mem_append_right _ h2))
            have h2 := sim_out (sim_set h1 x (kill o) (by intro y hy; simp [kill] at hy)) [s!"d{o.id}"]
            have h3 : LSim (o.a.toList ++ (o.b.toList ++ e)) (killSt s1 x o) (killSt s2 x o) := by
              have h2' : LSim (x :: (o.a.toList ++ (o.b.toList ++ e))) (killSt s1 x o) (killSt s2 x o) := h2
              exact h2'.weaken (fun r hr => Reach.root (List.mem_append_right _ (List.mem_cons_of_mem _ hr)))
            exact ih _ _ o.b e (ih _ _ o.a (o.b.toList ++ e) h3)

/-! ### slots, `retain`, allocation -/

theorem getSlot_mem_roots {s : St} {d x : Nat} (h : getSlot s d = some x) : x ∈ roots s := by
  unfold getSlot at h
  unfold roots
  cases hd : s.slots[d]? with
  | none => simp [hd] at h
  | some v =>
    simp [hd] at h
    subst h
    exact List.mem_filterMap.mpr ⟨some x, List.mem_of_getElem? hd, rfl⟩

theorem mem_roots_setSlotRaw {s : St} {d : Nat} {v : Option Nat} {r : Nat} (h : r ∈ roots (setSlotRaw s d v)) :
    r ∈ roots s ∨ v = some r := by
  unfold roots setSlotRaw at h
  obtain ⟨a, ha, hr⟩ := List.mem_filterMap.mp h
  simp only at ha
  rcases List.mem_or_eq_of_mem_set ha with h1 | h1
  · left; exact List.mem_filterMap.mpr ⟨a, h1, hr⟩
  · right; subst h1; simpa using hr

theorem retain_sim {e : List Nat} {s1 s2 : St} (h : LSim e s1 s2) (v : Option Nat)
    (hvr : ∀ x, v = some x → Reach (hv s2.heap) (roots s2 ++ e) x) : LSim e (retain s1 v) (retain s2 v) := by
  cases v with
  | none => exact h
  | some x =>
    have hx := hvr x rfl
    have heq := h.agree x hx
    cases ho : s2.heap[x]? with
    | none => rw [retain_miss s2 x ho, retain_miss s1 x (by rw [heq, ho])]; exact h
    | some o =>
      rw [retain_some s2 x o ho, retain_some s1 x o (by rw [heq, ho])]
      exact sim_set h x _ (fun y hy => reach_field hx ho hy)

/-- overwriting a slot: its old content goes into flight -/
theorem setSlotRaw_sim {e : List Nat} {s1 s2 : St} (h : LSim e s1 s2) (d : Nat) (v : Option Nat)
    (hvr : ∀ x, v = some x → Reach (hv s2.heap) (roots s2 ++ e) x) :
    LSim ((getSlot s2 d).toList ++ e) (setSlotRaw s1 d v) (setSlotRaw s2 d v) := by
  have hall : ∀ r ∈ roots (setSlotRaw s2 d v) ++ ((getSlot s2 d).toList ++ e), Reach (hv s2.heap) (roots s2 ++ e) r := by
    intro r hr
    rcases List.mem_append.mp hr with h1 | h1
    · rcases mem_roots_setSlotRaw h1 with h2 | h2
      · exact Reach.root (List.mem_append_left _ h2)
      · exact hvr r h2
    · rcases List.mem_append.mp h1 with h2 | h2
      · have : getSlot s2 d = some r := by
          cases hg : getSlot s2 d with
          | none => rw [hg] at h2; cases h2
          | some y => rw [hg] at h2; simp at h2; rw [h2]
        exact Reach.root (List.mem_append_left _ (getSlot_mem_roots this))
      · exact Reach.root (List.mem_append_right _ h2)
  refine ⟨by simp [setSlotRaw, h.slots], h.out, h.len, ?_, h.wf1, h.wf2, ?_⟩
  · intro i hi
    exact h.agree i (Gc.reach_mono_roots hall i hi)
  · intro r hr
    have := Gc.reach_lt h.wf2 (by rw [hv_length]; exact h.rootsValid) r (hall r hr)
    rwa [hv_length] at this

theorem succs_hv_append_old (h : List LObj) (o : LObj) (x : Nat) (hx : x < h.length) :
    succs (hv (h ++ [o])) x = succs (hv h) x := by
  rw [succs_hv, succs_hv, List.getElem?_append_left hx]

theorem succs_hv_append_new (h : List LObj) (o : LObj) (ha : o.a = none) (hb : o.b = none) :
    succs (hv (h ++ [o])) h.length = [] := by
  rw [succs_hv, List.getElem?_append_right (Nat.le_refl _)]
  simp [ha, hb]

/-- allocation: the fresh object (no fields yet) is in flight until a slot takes it -/
theorem append_sim {e : List Nat} {s1 s2 : St} (h : LSim e s1 s2) (o : LObj) (ha : o.a = none) (hb : o.b = none) :
    LSim (s2.heap.length :: e) { s1 with heap := s1.heap ++ [o] } { s2 with heap := s2.heap ++ [o] } := by
  have hold : ∀ i, Reach (hv (s2.heap ++ [o])) (roots s2 ++ (s2.heap.length :: e)) i →
      i = s2.heap.length ∨ Reach (hv s2.heap) (roots s2 ++ e) i := by
    intro i hi
    induction hi with
    | root hr =>
      rename_i r
      rcases List.mem_append.mp hr with h1 | h1
      · right; exact Reach.root (List.mem_append_left _ h1)
      · rcases List.mem_cons.mp h1 with h2 | h2
        · left; exact h2
        · right; exact Reach.root (List.mem_append_right _ h2)
    | step hz hy ih =>
      rename_i z y
      rcases ih with h1 | h1
      · rw [h1, succs_hv_append_new s2.heap o ha hb] at hy; cases hy
      · right
        have hzl : z < s2.heap.length := by
          have := Gc.reach_lt h.wf2 (by rw [hv_length]; exact h.rootsValid) z h1
          rwa [hv_length] at this
        rw [succs_hv_append_old s2.heap o z hzl] at hy
        exact Reach.step h1 hy
  refine ⟨h.slots, h.out, by simp [h.len], ?_, ?_, ?_, ?_⟩
  · intro i hi
    show (s1.heap ++ [o])[i]? = (s2.heap ++ [o])[i]?
    rcases hold i hi with h1 | h1
    · rw [h1, List.getElem?_append_right (Nat.le_refl _), ← h.len, List.getElem?_append_right (Nat.le_refl _)]
    · have hil : i < s2.heap.length := by
        have := Gc.reach_lt h.wf2 (by rw [hv_length]; exact h.rootsValid) i h1
        rwa [hv_length] at this
      rw [List.getElem?_append_left (by rw [h.len]; exact hil), List.getElem?_append_left hil]
      exact h.agree i h1
  · intro z y hy
    rw [hv_length, List.length_append]
    by_cases hzl : z < s1.heap.length
    · rw [succs_hv_append_old s1.heap o z hzl] at hy
      have := h.wf1 z y hy
      rw [hv_length] at this; omega
    · by_cases hze : z = s1.heap.length
      · rw [hze, succs_hv_append_new s1.heap o ha hb] at hy; cases hy
      · rw [succs_hv, List.getElem?_eq_none (by rw [List.length_append]; simp; omega)] at hy; cases hy
  · intro z y hy
    rw [hv_length, List.length_append]
    by_cases hzl : z < s2.heap.length
    · rw [succs_hv_append_old s2.heap o z hzl] at hy
      have := h.wf2 z y hy
      rw [hv_length] at this; omega
    · by_cases hze : z = s2.heap.length
      · rw [hze, succs_hv_append_new s2.heap o ha hb] at hy; cases hy
      · rw [succs_hv, List.getElem?_eq_none (by rw [List.length_append]; simp; omega)] at hy; cases hy
  · intro r hr
    show r < (s2.heap ++ [o]).length
    rw [List.length_append]
    rcases List.mem_append.mp hr with h1 | h1
    · have := h.rootsValid r (List.mem_append_left _ h1); simp; omega
    · rcases List.mem_cons.mp h1 with h2 | h2
      · rw [h2]; simp
      · have := h.rootsValid r (List.mem_append_right _ h2); simp; omega

/-! ### the primitives -/

theorem hv_retain (s : St) (v : Option Nat) : hv (retain s v).heap = hv s.heap := by
  cases v with
  | none => rfl
  | some x =>
    cases ho : s.heap[x]? with
    | none => rw [retain_miss s x ho]
    | some o =>
      rw [retain_some s x o ho]
      obtain ⟨hl, _⟩ := List.getElem?_eq_some_iff.mp ho
      apply List.ext_getElem?
      intro i
      show (hv (s.heap.set x { o with rc := o.rc + 1 }))[i]? = (hv s.heap)[i]?
      rw [hv_get, hv_get]
      by_cases hix : i = x
      · subst hix
        rw [List.getElem?_set_self hl, ho]
        rfl
      · rw [List.getElem?_set_ne (Ne.symm hix)]

theorem roots_retain (s : St) (v : Option Nat) : roots (retain s v) = roots s := by
  unfold roots; rw [retain_slots]

/-- shared_ptr assignment to a slot behaves the same on both sides -/
theorem assignSlot_sim {s1 s2 : St} (h : LSim [] s1 s2) (d : Nat) (v : Option Nat)
    (hvr : ∀ x, v = some x → Reach (hv s2.heap) (roots s2 ++ []) x) :
    LSim [] (assignSlot s1 d v) (assignSlot s2 d v) := by
  have hr := retain_sim h v hvr
  have hvr' : ∀ x, v = some x → Reach (hv (retain s2 v).heap) (roots (retain s2 v) ++ []) x := by
    intro x hx; rw [hv_retain, roots_retain]; exact hvr x hx
  have hs := setSlotRaw_sim hr d v hvr'
  have hg2 : getSlot (retain s2 v) d = getSlot s2 d := by unfold getSlot; rw [retain_slots]
  have hg1 : getSlot s1 d = getSlot s2 d := h.getSlot_eq d
  rw [hg2] at hs
  show LSim [] (release (setSlotRaw (retain s1 v) d v).heap.length (setSlotRaw (retain s1 v) d v) (getSlot s1 d))
    (release (setSlotRaw (retain s2 v) d v).heap.length (setSlotRaw (retain s2 v) d v) (getSlot s2 d))
  rw [hg1, hs.len]
  exact release_sim _ _ _ _ [] hs

theorem slot_reach {s : St} {d x : Nat} (hv' : getSlot s d = some x) : Reach (hv s.heap) (roots s ++ []) x :=
  Reach.root (List.mem_append_left _ (getSlot_mem_roots hv'))

theorem prim_sim {s1 s2 : St} (h : LSim [] s1 s2) (p : Prim) : LSim [] (prim s1 p) (prim s2 p) := by
  cases p with
  | new d id =>
    simp only [prim]
    have ha := append_sim h ({ id := id, rc := 1 } : LObj) rfl rfl
    have hvr : ∀ x, (some s2.heap.length : Option Nat) = some x →
        Reach (hv (s2.heap ++ [({ id := id, rc := 1 } : LObj)])) (roots s2 ++ (s2.heap.length :: [])) x := by
      intro x hx; cases hx
      exact Reach.root (List.mem_append_right _ (by simp))
    have hs := setSlotRaw_sim ha d (some s2.heap.length) hvr
    have hg1 : getSlot s1 d = getSlot s2 d := h.getSlot_eq d
    rw [hg1, h.len]
    have hfuel := hs.len
    show LSim [] (release (setSlotRaw _ d _).heap.length _ _) (release (setSlotRaw _ d _).heap.length _ _)
    rw [hfuel]
    have hr := release_sim (setSlotRaw { s2 with heap := s2.heap ++ [({ id := id, rc := 1 } : LObj)] } d (some s2.heap.length)).heap.length
      _ _ (getSlot s2 d) [s2.heap.length] hs
    exact hr.weaken (fun r hr => by cases hr)
  | set f d src =>
    simp only [prim]
    rw [h.getSlot_eq d, h.getSlot_eq src]
    cases hx : getSlot s2 d with
    | none => exact h
    | some x =>
      simp only
      have hxr := slot_reach hx
      rw [h.agree x hxr]
      cases ho : s2.heap[x]? with
      | none => exact h
      | some o =>
        simp only
        have hvr : ∀ y, getSlot s2 src = some y → Reach (hv s2.heap) (roots s2 ++ []) y := fun y hy => slot_reach hy
        have hr := retain_sim h (getSlot s2 src) hvr
        have hxr' : Reach (hv (retain s2 (getSlot s2 src)).heap) (roots (retain s2 (getSlot s2 src)) ++ []) x := by
          rw [hv_retain, roots_retain]; exact hxr
        rw [hr.agree x hxr']
        cases ho1 : (retain s2 (getSlot s2 src)).heap[x]? with
        | none => exact hr
        | some o1 =>
          simp only
          obtain ⟨o1', ho1', _, ha1, hb1⟩ := retain_get s2 (getSlot s2 src) x o ho
          rw [ho1] at ho1'; cases ho1'
          -- the old field value goes into flight, then the field is overwritten on both sides
          have hold : ∀ r ∈ (o.get f).toList ++ [], Reach (hv (retain s2 (getSlot s2 src)).heap)
              (roots (retain s2 (getSlot s2 src)) ++ []) r := by
            intro r hr'
            have hr'' : r ∈ (o.get f).toList := by simpa using hr'
            have : r ∈ o1.a.toList ++ o1.b.toList := by
              cases f with
              | a => simp only [LObj.get] at hr''; rw [ha1]; exact List.mem_append_left _ hr''
              | b => simp only [LObj.get] at hr''; rw [hb1]; exact List.mem_append_right _ hr''
            exact reach_field hxr' ho1 this
          have hw := hr.weaken hold
          have hput : ∀ y ∈ (o1.put f (getSlot s2 src)).a.toList ++ (o1.put f (getSlot s2 src)).b.toList,
              Reach (hv (retain s2 (getSlot s2 src)).heap) (roots (retain s2 (getSlot s2 src)) ++ ((o.get f).toList ++ [])) y := by
            intro y hy
            have hbase : ∀ z, Reach (hv (retain s2 (getSlot s2 src)).heap) (roots (retain s2 (getSlot s2 src)) ++ []) z →
                Reach (hv (retain s2 (getSlot s2 src)).heap) (roots (retain s2 (getSlot s2 src)) ++ ((o.get f).toList ++ [])) z := by
              intro z hz
              exact Gc.reach_mono_roots (fun r hr' => by
                rcases List.mem_append.mp hr' with h1 | h1
                · exact Reach.root (List.mem_append_left _ h1)
                · cases h1) z hz
            have hvsrc : ∀ y, getSlot s2 src = some y →
                Reach (hv (retain s2 (getSlot s2 src)).heap) (roots (retain s2 (getSlot s2 src)) ++ []) y := by
              intro y hy; rw [hv_retain, roots_retain]; exact hvr y hy
            cases f with
            | a =>
              simp only [LObj.put, List.mem_append, Option.mem_toList] at hy
              rcases hy with h1 | h1
              · exact hbase y (hvsrc y h1)
              · exact hbase y (reach_field hxr' ho1 (List.mem_append_right _ (by simpa using h1)))
            | b =>
              simp only [LObj.put, List.mem_append, Option.mem_toList] at hy
              rcases hy with h1 | h1
              · exact hbase y (reach_field hxr' ho1 (List.mem_append_left _ (by simpa using h1)))
              · exact hbase y (hvsrc y h1)
          have hs := sim_set hw x (o1.put f (getSlot s2 src)) hput
          have hfuel := hs.len
          show LSim [] (release (List.set _ x _).length _ _) (release (List.set _ x _).length _ _)
          have hfuel' : ((retain s1 (getSlot s2 src)).heap.set x (o1.put f (getSlot s2 src))).length =
              ((retain s2 (getSlot s2 src)).heap.set x (o1.put f (getSlot s2 src))).length := hfuel
          rw [hfuel']
          exact release_sim _ _ _ (o.get f) [] hs
  | load f d src =>
    simp only [prim]
    rw [h.getSlot_eq src]
    cases hx : getSlot s2 src with
    | none => exact h
    | some x =>
      simp only
      have hxr := slot_reach hx
      rw [h.agree x hxr]
      cases ho : s2.heap[x]? with
      | none => exact h
      | some o =>
        simp only
        apply assignSlot_sim h
        intro y hy
        have : y ∈ o.a.toList ++ o.b.toList := by
          cases f with
          | a => simp only [LObj.get] at hy; exact List.mem_append_left _ (by simpa using hy)
          | b => simp only [LObj.get] at hy; exact List.mem_append_right _ (by simpa using hy)
        exact reach_field hxr ho this
  | mov d src =>
    simp only [prim]
    rw [h.getSlot_eq src]
    exact assignSlot_sim h d _ (fun y hy => slot_reach hy)
  | clr d =>
    simp only [prim]
    exact assignSlot_sim h d none (fun y hy => by cases hy)
  | «show» d =>
    simp only [prim]
    rw [h.getSlot_eq d]
    cases hx : getSlot s2 d with
    | none => exact sim_out h _
    | some x =>
      simp only
      have : idStr s1.heap x = idStr s2.heap x := by unfold idStr; rw [h.agree x (slot_reach hx)]
      rw [this]
      exact sim_out h _
  | showA d =>
    simp only [prim]
    rw [h.getSlot_eq d]
    cases hx : getSlot s2 d with
    | none => exact sim_out h _
    | some x =>
      simp only
      have hxr := slot_reach hx
      rw [h.agree x hxr]
      cases ho : s2.heap[x]? with
      | none => exact sim_out h _
      | some o =>
        simp only
        cases hy : o.a with
        | none => exact sim_out h _
        | some y =>
          simp only
          have hyr : Reach (hv s2.heap) (roots s2 ++ []) y :=
            reach_field hxr ho (List.mem_append_left _ (by rw [hy]; simp))
          have : idStr s1.heap y = idStr s2.heap y := by unfold idStr; rw [h.agree y hyr]
          rw [this]
          exact sim_out h _
  | showNN d =>
    simp only [prim]
    rw [h.getSlot_eq d]
    cases hx : getSlot s2 d with
    | none => exact h
    | some x =>
      simp only
      have : idStr s1.heap x = idStr s2.heap x := by unfold idStr; rw [h.agree x (slot_reach hx)]
      rw [this]
      exact sim_out h _

theorem exec_sim (sched : Nat → Bool) : ∀ (ps : List Prim) (k : Nat) (s1 s2 : St), LSim [] s1 s2 →
    LSim [] (execS sched k ps s1) (exec ps s2)
  | [], _, _, _, h => h
  | p :: ps, k, s1, s2, h => exec_sim sched ps (k + 1) _ _ (prim_sim (gcPoint_sim sched k h) p)

/-! ### whole programs -/

def runOpsS (sched : Nat → Bool) (ops : List Gc.Op) : St := execS sched 0 (ops.flatMap Gc.compile) initSt

theorem runOps_sim (sched : Nat → Bool) (ops : List Gc.Op) : LSim [] (runOpsS sched ops) (runOps ops) :=
  exec_sim sched _ 0 _ _ LSim.init

theorem sim_clear_out {s1 s2 : St} (h : LSim [] s1 s2) : LSim [] { s1 with out := [] } { s2 with out := [] } :=
  ⟨h.slots, rfl, h.len, h.agree, h.wf1, h.wf2, h.rootsValid⟩

theorem fold_assign_sim : ∀ (ds : List Nat) (s1 s2 : St), LSim [] s1 s2 →
    LSim [] (ds.foldl (fun st d => assignSlot st d none) s1) (ds.foldl (fun st d => assignSlot st d none) s2)
  | [], _, _, h => h
  | d :: ds, _, _, h => fold_assign_sim ds _ _ (assignSlot_sim h d none (fun y hy => by cases hy))

/-- **Garbage collection is unobservable, destructors included.**  Under every schedule of collections the program
prints what it prints without any collection — echo lines and destructor lines, in the same order — and the variables
of `main` then die with the same destructor lines. -/
theorem schedule_unobservable_with_destructors (sched : Nat → Bool) (ops : List Gc.Op) :
    (runOpsS sched ops).out = (runOps ops).out ∧
    finalDestructors (runOpsS sched ops) = finalDestructors (runOps ops) := by
  have h := runOps_sim sched ops
  refine ⟨h.out, ?_⟩
  unfold finalDestructors
  exact (fold_assign_sim [3, 2, 1, 0] _ _ (sim_clear_out h)).out

end BlochVerif.Life
