import BlochVerif.Gc.Model
/-!
# Object lifetime under reference counting (C08 destructor clause, C11)

The evaluator holds objects in `std::shared_ptr`s: an object is destroyed — its destructor runs, then its fields
are released in field order — at the moment its last strong reference disappears; references that only form a
cycle keep each other alive (the cycle collector reclaims those without running destructors).  This file is that
discipline over the same register machine as `Gc.Model` (same primitives, same programs): every object carries
its reference count, `release` decrements and cascades, `retain` increments.  Destructor lines are `d<id>`.
-/
namespace BlochVerif.Life
open BlochVerif.Gc (Fld Prim Op compile)

structure LObj where
  id : Int
  a : Option Nat := none
  b : Option Nat := none
  /-- strong references: slots and fields of objects that are still alive -/
  rc : Nat := 0
  /-- the destructor has run and the fields have been released -/
  dead : Bool := false
deriving Repr, DecidableEq, Inhabited

structure St where
  heap : List LObj := []
  slots : List (Option Nat) := []
  out : List String := []
deriving Repr

def LObj.get (o : LObj) : Fld → Option Nat
  | .a => o.a
  | .b => o.b

def LObj.put (o : LObj) (f : Fld) (v : Option Nat) : LObj :=
  match f with
  | .a => { o with a := v }
  | .b => { o with b := v }

def getSlot (s : St) (d : Nat) : Option Nat := (s.slots[d]?).join

def retain (s : St) : Option Nat → St
  | none => s
  | some x =>
    match s.heap[x]? with
    | some o => { s with heap := s.heap.set x { o with rc := o.rc + 1 } }
    | none => s

/-- drop one reference; at zero run the destructor (`d<id>`) and release the fields in field order.
`fuel` bounds the cascade depth (the heap size suffices: every level kills a different object). -/
def release : Nat → St → Option Nat → St
  | _, s, none => s
  | 0, s, some _ => s
  | fuel + 1, s, some x =>
    match s.heap[x]? with
    | none => s
    | some o =>
      if o.dead then s
      else if o.rc > 1 then { s with heap := s.heap.set x { o with rc := o.rc - 1 } }
      else
        -- last reference: destructor body first, then the fields go, a before b
        let s1 : St := { s with heap := s.heap.set x { o with rc := 0, dead := true, a := none, b := none },
                                 out := s.out ++ [s!"d{o.id}"] }
        let s2 := release fuel s1 o.a
        release fuel s2 o.b

def setSlotRaw (s : St) (d : Nat) (v : Option Nat) : St := { s with slots := s.slots.set d v }

/-- `slot d := v` with shared_ptr assignment semantics: the new value is retained first, the old one released after -/
def assignSlot (s : St) (d : Nat) (v : Option Nat) : St :=
  let old := getSlot s d
  let s1 := retain s v
  let s2 := setSlotRaw s1 d v
  release s2.heap.length s2 old

def idStr (h : List LObj) (x : Nat) : String :=
  match h[x]? with
  | some o => toString o.id
  | none => "?"

def prim (s : St) : Prim → St
  | .new d id =>
    -- the fresh object is born with the reference the slot is about to hold
    let x := s.heap.length
    let old := getSlot s d
    let s1 : St := { s with heap := s.heap ++ [{ id := id, rc := 1 }] }
    let s2 := setSlotRaw s1 d (some x)
    release s2.heap.length s2 old
  | .set f d src =>
    match getSlot s d with
    | some x =>
      match s.heap[x]? with
      | some o =>
        let v := getSlot s src
        let old := o.get f
        let s1 := retain s v
        match s1.heap[x]? with
        | some o1 =>
          let s2 : St := { s1 with heap := s1.heap.set x (o1.put f v) }
          release s2.heap.length s2 old
        | none => s1
      | none => s
    | none => s
  | .load f d src =>
    match getSlot s src with
    | some x =>
      match s.heap[x]? with
      | some o => assignSlot s d (o.get f)
      | none => s
    | none => s
  | .mov d src => assignSlot s d (getSlot s src)
  | .clr d => assignSlot s d none
  | .show d =>
    match getSlot s d with
    | some x => { s with out := s.out ++ [idStr s.heap x] }
    | none => { s with out := s.out ++ ["null"] }
  | .showA d =>
    match getSlot s d with
    | some x =>
      match s.heap[x]? with
      | some o =>
        match o.a with
        | some y => { s with out := s.out ++ [idStr s.heap y] }
        | none => { s with out := s.out ++ ["a-null"] }
      | none => { s with out := s.out ++ ["?"] }
    | none => { s with out := s.out ++ ["null"] }
  | .showNN d =>
    match getSlot s d with
    | some x => { s with out := s.out ++ [idStr s.heap x] }
    | none => s

def exec : List Prim → St → St
  | [], s => s
  | p :: ps, s => exec ps (prim s p)

def initSt : St := { slots := List.replicate 9 none }

/-- the program's output up to the end of `main`; the variables of `main` then die in an unspecified order, which
`finalDestructors` lists as a set -/
def runOps (ops : List Op) : St := exec (ops.flatMap compile) initSt

/-- destructor lines produced when the four program variables are released at the end of `main`: a scope lets its
values die in reverse order of declaration (slots are declared in order 0, 1, 2, 3) -/
def finalDestructors (s : St) : List String :=
  let s' := [3, 2, 1, 0].foldl (fun st d => assignSlot st d none) { s with out := [] }
  s'.out

end BlochVerif.Life
