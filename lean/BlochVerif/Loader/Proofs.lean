import BlochVerif.Loader.Model
/-!
# Invariants of the loader machine (core-only)
-/
namespace BlochVerif.Loader

/-- `t` occurs strictly before `p` in `l` -/
def Before (t p : Path) (l : List Path) : Prop := ∃ l1 l2, l = l1 ++ p :: l2 ∧ t ∈ l1

theorem Before.append {t p : Path} {l : List Path} (h : Before t p l) (x : List Path) :
    Before t p (l ++ x) := by
  obtain ⟨l1, l2, e, m⟩ := h
  exact ⟨l1, l2 ++ x, by rw [e]; simp, m⟩

/-- the files a module's imports resolve to (what must be loaded before it) -/
def importTargets (env : Env) (self : Path) (imp : Import) : List Path :=
  if imp.wildcard then (resolvePackageModules env imp.pkg (parentDir self)).filter (· ≠ self)
  else match imp.symbol with
    | some sym => (resolveImportPath env (imp.pkg ++ [sym]) (parentDir self)).toList
    | none => []

def moduleTargets (env : Env) (self : Path) (m : Module) : List Path :=
  m.imports.flatMap (importTargets env self)

/-- the loader's bookkeeping invariant -/
structure Inv (env : Env) (st : LState) : Prop where
  nodup : st.order.Nodup
  cacheKeys : ∀ p, (st.cached p).isSome ↔ p ∈ st.order
  depsFirst : ∀ p ∈ st.order, ∀ m, env.fs.lookup p = some (.file (some m)) →
    ∀ t ∈ moduleTargets env p m, Before t p st.order
  disj : ∀ p ∈ st.stack, p ∉ st.order

/-- how a successful step may change the state -/
structure Ext (st st' : LState) : Prop where
  stack : st'.stack = st.stack
  order : ∃ added, st'.order = st.order ++ added
  cache : ∀ p m, st.cached p = some m → st'.cached p = some m

theorem Ext.refl (st : LState) : Ext st st := ⟨rfl, ⟨[], by simp⟩, fun _ _ h => h⟩

theorem Ext.trans {a b c : LState} (h1 : Ext a b) (h2 : Ext b c) : Ext a c := by
  obtain ⟨x, hx⟩ := h1.order
  obtain ⟨y, hy⟩ := h2.order
  exact ⟨h2.stack.trans h1.stack, ⟨x ++ y, by rw [hy, hx]; simp⟩, fun p m h => h2.cache p m (h1.cache p m h)⟩

theorem Ext.mem {a b : LState} (h : Ext a b) {p : Path} (hp : p ∈ a.order) : p ∈ b.order := by
  obtain ⟨x, hx⟩ := h.order; rw [hx]; simp [hp]

theorem cached_append_ne (cache : List (Path × Module)) (q p : Path) (m : Module) (h : q ≠ p) :
    ((cache ++ [(p, m)]).find? (fun e => e.1 == q)).map (·.2) = (cache.find? (fun e => e.1 == q)).map (·.2) := by
  rw [List.find?_append]
  cases hc : cache.find? (fun e => e.1 == q) with
  | some x => simp
  | none =>
    simp only [Option.none_or, List.find?_cons, List.find?_nil]
    have : (p == q) = false := by simp [Ne.symm h]
    simp [this]

theorem cached_append_self (cache : List (Path × Module)) (p : Path) (m : Module)
    (h : (cache.find? (fun e => e.1 == p)) = none) :
    ((cache ++ [(p, m)]).find? (fun e => e.1 == p)).map (·.2) = some m := by
  rw [List.find?_append, h]
  simp

/-- the specification of one successful `loadModule` call -/
def ModSpec (env : Env) (fuel : Nat) : Prop :=
  ∀ path st st', Inv env st → loadModule env fuel path st = .ok st' →
    Inv env st' ∧ Ext st st' ∧ path ∈ st'.order

theorem loadTargets_spec (env : Env) (fuel : Nat) (hM : ModSpec env fuel) (self : Path)
    (pkg : List String) (ts : List Path) (st st' : LState) (hi : Inv env st)
    (h : loadTargets env fuel self pkg ts st = .ok st') :
    Inv env st' ∧ Ext st st' ∧ ∀ t ∈ ts, t ≠ self → t ∈ st'.order := by
  induction ts generalizing st with
  | nil =>
    unfold loadTargets at h; injection h with h; subst h
    exact ⟨hi, Ext.refl _, by intro t ht; cases ht⟩
  | cons t ts ih =>
    unfold loadTargets at h
    by_cases hs : t = self
    · rw [if_pos hs] at h
      obtain ⟨i1, e1, m1⟩ := ih st hi h
      refine ⟨i1, e1, ?_⟩
      intro x hx hne
      simp only [List.mem_cons] at hx
      rcases hx with rfl | hx
      · exact absurd hs hne
      · exact m1 x hx hne
    · rw [if_neg hs] at h
      cases hl : loadModule env fuel t st with
      | error e => rw [hl] at h; cases h
      | ok st1 =>
        rw [hl] at h
        simp only at h
        obtain ⟨i1, e1, m1⟩ := hM t st st1 hi hl
        split at h
        · obtain ⟨i2, e2, m2⟩ := ih st1 i1 h
          refine ⟨i2, e1.trans e2, ?_⟩
          intro x hx hne
          simp only [List.mem_cons] at hx
          rcases hx with rfl | hx
          · exact e2.mem m1
          · exact m2 x hx hne
        · cases h

theorem loadImports_spec (env : Env) (fuel : Nat) (hM : ModSpec env fuel) (self : Path)
    (imps : List Import) (st st' : LState) (hi : Inv env st)
    (h : loadImports env fuel self imps st = .ok st') :
    Inv env st' ∧ Ext st st' ∧ ∀ imp ∈ imps, ∀ t ∈ importTargets env self imp, t ∈ st'.order := by
  induction imps generalizing st with
  | nil =>
    unfold loadImports at h; injection h with h; subst h
    exact ⟨hi, Ext.refl _, by intro i hi'; cases hi'⟩
  | cons imp rest ih =>
    unfold loadImports at h
    by_cases hw : imp.wildcard = true
    · rw [if_pos hw] at h
      cases hr : resolvePackageModules env imp.pkg (parentDir self) with
      | nil => rw [hr] at h; cases h
      | cons t0 ts0 =>
        rw [hr] at h
        simp only at h
        cases hl : loadTargets env fuel self imp.pkg (t0 :: ts0) st with
        | error e => rw [hl] at h; cases h
        | ok st1 =>
          rw [hl] at h
          simp only at h
          obtain ⟨i1, e1, m1⟩ := loadTargets_spec env fuel hM self imp.pkg (t0 :: ts0) st st1 hi hl
          obtain ⟨i2, e2, m2⟩ := ih st1 i1 h
          refine ⟨i2, e1.trans e2, ?_⟩
          intro i hi' t ht
          simp only [List.mem_cons] at hi'
          rcases hi' with rfl | hi'
          · unfold importTargets at ht
            rw [if_pos hw, hr] at ht
            simp only [List.mem_filter, decide_eq_true_eq] at ht
            exact e2.mem (m1 t ht.1 ht.2)
          · exact m2 i hi' t ht
    · rw [if_neg hw] at h
      cases hsym : imp.symbol with
      | none => rw [hsym] at h; cases h
      | some sym =>
        rw [hsym] at h
        simp only at h
        cases hr : resolveImportPath env (imp.pkg ++ [sym]) (parentDir self) with
        | none => rw [hr] at h; cases h
        | some target =>
          rw [hr] at h
          simp only at h
          cases hl : loadModule env fuel target st with
          | error e => rw [hl] at h; cases h
          | ok st1 =>
            rw [hl] at h
            simp only at h
            obtain ⟨i1, e1, m1⟩ := hM target st st1 hi hl
            split at h
            · obtain ⟨i2, e2, m2⟩ := ih st1 i1 h
              refine ⟨i2, e1.trans e2, ?_⟩
              intro i hi' t ht
              simp only [List.mem_cons] at hi'
              rcases hi' with rfl | hi'
              · unfold importTargets at ht
                rw [if_neg hw, hsym] at ht
                simp only [hr, Option.toList_some, List.mem_singleton] at ht
                subst ht
                exact e2.mem m1
              · exact m2 i hi' t ht
            · cases h

theorem contains_false_of_not_mem {l : List Path} {p : Path} (h : l.contains p = false) : p ∉ l := by
  intro hm
  have : l.contains p = true := List.contains_iff_mem.mpr hm
  rw [this] at h; cases h

/-- the stack entries are never in `order` … (not needed) -/

theorem modSpec (env : Env) : ∀ fuel, ModSpec env fuel := by
  intro fuel
  induction fuel with
  | zero => intro path st st' _ h; unfold loadModule at h; cases h
  | succ f ih =>
    intro path st st' hi h
    unfold loadModule at h
    by_cases hstk : st.stack.contains path = true
    · rw [if_pos hstk] at h; cases h
    · rw [if_neg hstk] at h
      by_cases hc : (st.cached path).isSome = true
      · rw [if_pos hc] at h
        injection h with h; subst h
        exact ⟨hi, Ext.refl _, (hi.cacheKeys path).mp hc⟩
      · rw [if_neg hc] at h
        cases hlk : env.fs.lookup path with
        | none => rw [hlk] at h; cases h
        | some node =>
          rw [hlk] at h
          cases node with
          | dir => cases h
          | file om =>
            cases om with
            | none => cases h
            | some m =>
              simp only at h
              cases hl : loadImports env f path m.imports { st with stack := st.stack ++ [path] } with
              | error e => rw [hl] at h; cases h
              | ok st2 =>
                rw [hl] at h
                simp only at h
                injection h with h; subst h
                have hnotin : path ∉ st.order := fun hm => hc ((hi.cacheKeys path).mpr hm)
                have hi1 : Inv env { st with stack := st.stack ++ [path] } :=
                  ⟨hi.nodup, hi.cacheKeys, hi.depsFirst, by
                    intro p hp
                    simp only [List.mem_append, List.mem_singleton] at hp
                    rcases hp with hp | hp
                    · exact hi.disj p hp
                    · subst hp; exact hnotin⟩
                obtain ⟨i2, e2, m2⟩ := loadImports_spec env f ih path m.imports _ st2 hi1 hl
                have hstk2 : st2.stack = st.stack ++ [path] := e2.stack
                have hin2 : path ∉ st2.order := i2.disj path (by rw [hstk2]; simp)
                have hpns : path ∉ st.stack := contains_false_of_not_mem (by
                  cases hh : st.stack.contains path with
                  | true => exact absurd hh hstk
                  | false => rfl)
                by_cases htriv : True
                · refine ⟨⟨?_, ?_, ?_, ?_⟩, ⟨?_, ?_, ?_⟩, by simp⟩
                  · simp only
                    rw [List.nodup_append]
                    refine ⟨i2.nodup, by simp, ?_⟩
                    intro a ha b hb
                    simp only [List.mem_singleton] at hb
                    subst hb; intro e; subst e; exact hin2 ha
                  · intro p
                    simp only [LState.cached]
                    by_cases hp : p = path
                    · subst hp
                      have hnone : st2.cache.find? (fun e => e.1 == p) = none := by
                        have := (i2.cacheKeys p)
                        unfold LState.cached at this
                        cases hf : st2.cache.find? (fun e => e.1 == p) with
                        | none => rfl
                        | some x => rw [hf] at this; exact absurd (this.mp rfl) hin2
                      rw [cached_append_self _ _ _ hnone]; simp
                    · rw [cached_append_ne _ _ _ _ hp]
                      have := i2.cacheKeys p
                      unfold LState.cached at this
                      rw [this]; simp [hp]
                  · intro p hp m' hm' t ht
                    simp only [List.mem_append, List.mem_singleton] at hp
                    rcases hp with hp | hp
                    · exact (i2.depsFirst p hp m' hm' t ht).append _
                    · subst hp
                      rw [hlk] at hm'
                      injection hm' with hm'; injection hm' with hm'; injection hm' with hm'
                      subst hm'
                      refine ⟨st2.order, [], by simp, ?_⟩
                      unfold moduleTargets at ht
                      rw [List.mem_flatMap] at ht
                      obtain ⟨imp, himp, htt⟩ := ht
                      exact m2 imp himp t htt
                  · intro p hp
                    simp only at hp ⊢
                    rw [hstk2, List.dropLast_concat] at hp
                    simp only [List.mem_append, List.mem_singleton, not_or]
                    refine ⟨i2.disj p (by rw [hstk2]; simp [hp]), ?_⟩
                    intro e; subst e; exact hpns hp
                  · simp only; rw [hstk2, List.dropLast_concat]
                  · obtain ⟨x, hx⟩ := e2.order
                    exact ⟨x ++ [path], by simp only; rw [hx]; simp⟩
                  · intro p m' hm'
                    have h2 := e2.cache p m' hm'
                    simp only [LState.cached] at h2 ⊢
                    have hp : p ≠ path := by
                      intro e; subst e
                      have : (st.cached p).isSome = true := by rw [hm']; rfl
                      exact hc this
                    rw [cached_append_ne _ _ _ _ hp]; exact h2
                · exact absurd trivial htriv

end BlochVerif.Loader
