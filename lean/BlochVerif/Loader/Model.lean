/-!
# Model of `src/bloch/compiler/import/module_loader.cpp`

The file system is an explicit finite map from absolute paths (lists of components) to nodes;
a source file is abstracted to what the loader looks at: its package line, its imports, the
names of its classes and functions (or "does not parse").  `std::filesystem` canonicalisation,
symlinks, `..` and case folding are outside the model (the generator avoids them).  Core-only.
-/
namespace BlochVerif.Loader

abbrev Path := List String

structure Import where
  pkg : List String
  symbol : Option String
  wildcard : Bool
deriving Repr, DecidableEq

structure Module where
  package : Option (List String)
  imports : List Import
  classes : List String
  functions : List String
deriving Repr, DecidableEq

inductive Node where
  | file (m : Option Module)      -- `none`: the file does not lex/parse
  | dir
deriving Repr, DecidableEq

abbrev FS := List (Path × Node)

structure Env where
  fs : FS
  searchPaths : List Path
  cwd : Path
deriving Repr

inductive LoadErr where
  | cycle | notFound | pkgMismatch | missingSymbol | parse | openFail | noMain | multiMain | outOfFuel
deriving Repr, DecidableEq

def FS.lookup (fs : FS) (p : Path) : Option Node := (fs.find? (fun e => e.1 == p)).map (·.2)

def FS.isFile (fs : FS) (p : Path) : Bool :=
  match fs.lookup p with | some (.file _) => true | _ => false

def FS.isDir (fs : FS) (p : Path) : Bool :=
  match fs.lookup p with | some .dir => true | _ => false

/-- the roots an import is searched under, in order -/
def bases (env : Env) (parts : List String) (fromDir : Path) : List Path :=
  if parts.head? = some "bloch" then env.searchPaths ++ [fromDir, env.cwd]
  else fromDir :: env.searchPaths ++ [env.cwd]

/-- `a/b/C.bloch` for `[a, b, C]` -/
def relFile (parts : List String) : Path :=
  match parts.reverse with
  | [] => [".bloch"]
  | last :: revInit => revInit.reverse ++ [last ++ ".bloch"]

/-- `resolveImportPath`: the first root under which the file exists -/
def resolveImportPath (env : Env) (parts : List String) (fromDir : Path) : Option Path :=
  ((bases env parts fromDir).map (· ++ relFile parts)).find? env.fs.isFile

def insertSorted (x : String) : List String → List String
  | [] => [x]
  | y :: ys => if x < y then x :: y :: ys else y :: insertSorted x ys

def sortStrings (l : List String) : List String := l.foldr insertSorted []

/-- regular `.bloch` files directly inside `dir`, sorted by name (`std::sort` on full paths that
    share the directory prefix) -/
def listModules (fs : FS) (dir : Path) : List Path :=
  let names := fs.filterMap (fun e =>
    match e.2 with
    | .file _ =>
      match e.1.reverse with
      | name :: revDir => if revDir.reverse == dir && name.endsWith ".bloch" then some name else none
      | [] => none
    | .dir => none)
  (sortStrings names).map (fun n => dir ++ [n])

/-- `resolvePackageModules`: the modules of the first root whose package directory exists and
    contains at least one `.bloch` file -/
def resolvePackageModules (env : Env) (pkg : List String) (fromDir : Path) : List Path :=
  match ((bases env pkg fromDir).map (· ++ pkg)).find?
      (fun d => env.fs.isDir d && !(listModules env.fs d).isEmpty) with
  | some d => listModules env.fs d
  | none => []

structure LState where
  cache : List (Path × Module) := []
  order : List Path := []
  stack : List Path := []
deriving Repr

def LState.cached (st : LState) (p : Path) : Option Module := (st.cache.find? (fun e => e.1 == p)).map (·.2)

def packageOf (st : LState) (p : Path) : List String :=
  match st.cached p with
  | some m => m.package.getD []
  | none => []

def parentDir (p : Path) : Path := p.dropLast

mutual
/-- `ModuleLoader::loadModule` -/
def loadModule (env : Env) : Nat → Path → LState → Except LoadErr LState
  | 0, _, _ => .error .outOfFuel
  | fuel + 1, path, st =>
    if st.stack.contains path then .error .cycle
    else if (st.cached path).isSome then .ok st
    else
      match env.fs.lookup path with
      | some (.file (some m)) =>
        let st1 := { st with stack := st.stack ++ [path] }
        match loadImports env fuel path m.imports st1 with
        | .error e => .error e
        | .ok st2 =>
          .ok { cache := st2.cache ++ [(path, { m with imports := [] })],
                order := st2.order ++ [path], stack := st2.stack.dropLast }
      | some (.file none) => .error .parse
      | _ => .error .openFail

/-- the `for (auto& imp : program->imports)` loop -/
def loadImports (env : Env) : Nat → Path → List Import → LState → Except LoadErr LState
  | _, _, [], st => .ok st
  | fuel, self, imp :: rest, st =>
    if imp.wildcard then
      match resolvePackageModules env imp.pkg (parentDir self) with
      | [] => .error .notFound
      | targets =>
        match loadTargets env fuel self imp.pkg targets st with
        | .error e => .error e
        | .ok st' => loadImports env fuel self rest st'
    else
      match imp.symbol with
      | some sym =>
        match resolveImportPath env (imp.pkg ++ [sym]) (parentDir self) with
        | none => .error .notFound
        | some target =>
          match loadModule env fuel target st with
          | .error e => .error e
          | .ok st' =>
            if packageOf st' target = imp.pkg then loadImports env fuel self rest st'
            else .error .pkgMismatch
      | none => .error .missingSymbol

/-- the `for (const auto& target : targets)` loop of a wildcard import -/
def loadTargets (env : Env) : Nat → Path → List String → List Path → LState → Except LoadErr LState
  | _, _, _, [], st => .ok st
  | fuel, self, pkg, t :: ts, st =>
    if t = self then loadTargets env fuel self pkg ts st
    else
      match loadModule env fuel t st with
      | .error e => .error e
      | .ok st' =>
        if packageOf st' t = pkg then loadTargets env fuel self pkg ts st'
        else .error .pkgMismatch
end

structure Merged where
  order : List Path
  classes : List String
  functions : List String
deriving Repr, DecidableEq

/-- `ModuleLoader::load` -/
def load (env : Env) (entry : Path) : Except LoadErr Merged :=
  let fuel := env.fs.length + 2
  let st0 : LState := {}
  let r1 : Except LoadErr LState :=
    match resolveImportPath env ["bloch", "lang", "Object"] (parentDir entry) with
    | some obj => loadModule env fuel obj st0
    | none => .ok st0
  match r1 with
  | .error e => .error e
  | .ok st1 =>
    match loadModule env fuel entry st1 with
    | .error e => .error e
    | .ok st2 =>
      let mods := st2.order.filterMap st2.cached
      let classes := mods.flatMap (·.classes)
      let functions := mods.flatMap (·.functions)
      let mains := (functions.filter (· == "main")).length
      if mains = 0 then .error .noMain
      else if mains > 1 then .error .multiMain
      else .ok { order := st2.order, classes := classes, functions := functions }

end BlochVerif.Loader
