import BlochVerif.Eval.Hoare
/-!
# The evaluator's measured flags are the simulator's (C06, whole-evaluator form)

`Agree st`: the evaluator knows exactly the simulator's qubits, and for each of them its own "measured" flag equals
the simulator's.  Every primitive preserves it, hence (induction principle) every program does, at every point.
Consequence: the guard `ensureQubitActive` — by index, so the same through every access path — refuses exactly the
operations the simulator itself would refuse, and it does so first, at the position of the call.
-/
namespace BlochVerif.Eval
open BlochVerif BlochVerif.Parse BlochVerif.Sim

section simFacts
variable {K R : Type} [Inhabited K] [Add K] [Mul K]

theorem log_n (st : State K R) (op : QOp R) : (st.log op).n = st.n := by unfold State.log; split <;> rfl
theorem log_measured (st : State K R) (op : QOp R) : (st.log op).measured = st.measured := by
  unfold State.log; split <;> rfl

theorem gate1_flags (o : ROps K R) (st s : State K R) (op : QOp R) (h : gate1 o st op = .ok s) :
    s.n = st.n ∧ s.measured = st.measured := by
  unfold gate1 at h
  split at h
  · cases h; exact ⟨rfl, rfl⟩
  · rename_i q m _
    cases he : ensureActive st q with
    | error e => rw [he] at h; cases h
    | ok u =>
      rw [he] at h
      simp only [bind, Except.bind, pure, Except.pure, Except.ok.injEq] at h
      rw [← h]
      exact ⟨by rw [log_n], by rw [log_measured]⟩

theorem cx_flags (st s : State K R) (c t : Nat) (h : cx st c t = .ok s) : s.n = st.n ∧ s.measured = st.measured := by
  unfold cx at h
  cases h1 : ensureActive st c with
  | error e => rw [h1] at h; cases h
  | ok u =>
    rw [h1] at h
    cases h2 : ensureActive st t with
    | error e => simp only [bind, Except.bind] at h; rw [h2] at h; cases h
    | ok u2 =>
      simp only [bind, Except.bind] at h
      rw [h2] at h
      simp only at h
      split at h
      · cases h
      · simp only [pure, Except.pure, Except.ok.injEq] at h
        rw [← h]
        exact ⟨by rw [log_n], by rw [log_measured]⟩

theorem ensureActive_ok (st : State K R) (q : Nat) (h : ensureActive st q = .ok ()) :
    q < st.n ∧ (q < st.measured.size → st.measured[q]! = false) := by
  unfold ensureActive at h
  split at h
  · cases h
  · rename_i hq
    split at h
    · cases h
    · rename_i hm
      refine ⟨by omega, fun hs => ?_⟩
      simp only [Bool.and_eq_true, decide_eq_true_eq, not_and] at hm
      cases hb : st.measured[q]! with
      | false => rfl
      | true => exact absurd hb (hm hs)

theorem measure_flags (o : ROps K R) (st s : State K R) (q res : Nat) (r : R)
    (h : Sim.measure o st q r = .ok (s, res)) :
    s.n = st.n ∧ s.measured = st.measured.setIfInBounds q true ∧ ensureActive st q = .ok () := by
  unfold Sim.measure at h
  cases h1 : ensureActive st q with
  | error e => rw [h1] at h; cases h
  | ok u =>
    rw [h1] at h
    simp only [bind, Except.bind, pure, Except.pure, Except.ok.injEq, Prod.mk.injEq] at h
    obtain ⟨hs, _⟩ := h
    rw [← hs]
    unfold measureCore
    simp only [log_n, log_measured]
    exact ⟨trivial, trivial, trivial⟩

theorem reset_flags (o : ROps K R) (st s : State K R) (q res : Nat) (r : R) (h : reset o st q r = .ok (s, res)) :
    s.n = st.n ∧ s.measured = st.measured.setIfInBounds q false ∧ q < st.n := by
  unfold reset at h
  by_cases hq : q ≥ st.n
  · simp only [hq, if_true, bind, Except.bind, throw, throwThe, MonadExceptOf.throw] at h
    cases h
  · simp only [hq, if_false, bind, Except.bind, pure, Except.pure, Except.ok.injEq, Prod.mk.injEq] at h
    obtain ⟨hs, _⟩ := h
    rw [← hs]
    unfold resetCore
    simp only [log_n, log_measured]
    exact ⟨trivial, trivial, by omega⟩

theorem allocate_flags (o : ROps K R) (st : State K R) (hs : st.measured.size = st.n) :
    (allocate o st).2 = st.n ∧ (allocate o st).1.n = st.n + 1 ∧ (allocate o st).1.measured = st.measured.push false := by
  refine ⟨rfl, rfl, ?_⟩
  unfold allocate
  simp only
  rw [if_pos (show st.n ≥ st.measured.size by rw [hs]; exact Nat.le_refl _), hs]
  simp

end simFacts

theorem arr_set_get (a : Array Bool) (q i : Nat) (v : Bool) (hq : q < a.size) :
    (a.setIfInBounds q v)[i]! = if i = q then v else a[i]! := by
  simp only [getElem!_def, Array.getElem?_setIfInBounds]
  by_cases h : i = q
  · subst h; simp [hq]
  · have h' : ¬ q = i := fun e => h e.symm
    simp [h, h']

theorem list_set_getD (l : List QubitInfo) (q i : Nat) (v : QubitInfo) (hq : q < l.length) :
    (l.set q v).getD i default = if i = q then v else l.getD i default := by
  simp only [List.getD_eq_getElem?_getD, List.getElem?_set]
  by_cases h : i = q
  · subst h; simp [hq]
  · have h' : ¬ q = i := fun e => h e.symm
    simp [h, h']

/-- the evaluator knows exactly the simulator's qubits and agrees with it on which are measured -/
structure Agree (st : EState) : Prop where
  flags : st.sim.measured.size = st.sim.n
  count : st.qubits.length = st.sim.n
  same : ∀ i, i < st.sim.n → (st.qubits.getD i default).measured = st.sim.measured[i]!

/-- an update of one qubit's flag on both sides, or on neither -/
theorem Agree.set_both {st : EState} (h : Agree st) (q : Nat) (hq : q < st.sim.n) (b : Bool) (nm : String)
    (s : Sim.State CF Float) (hn : s.n = st.sim.n) (hm : s.measured = st.sim.measured.setIfInBounds q b)
    (qs : List QubitInfo) (hqs : qs = st.qubits.set q { name := nm, measured := b }) (st' : EState)
    (h1 : st'.sim = s) (h2 : st'.qubits = qs) : Agree st' := by
  constructor
  · rw [h1, hm, hn, Array.size_setIfInBounds]; exact h.flags
  · rw [h2, hqs, h1, hn, List.length_set]; exact h.count
  · intro i hi
    rw [h1, hn] at hi
    rw [h2, hqs, h1, hm, list_set_getD _ _ _ _ (by rw [h.count]; exact hq), arr_set_get _ _ _ _ (by rw [h.flags]; exact hq)]
    by_cases e : i = q
    · simp [e]
    · simp only [e, if_false]; exact h.same i hi

theorem Agree.same_sim {st st' : EState} (h : Agree st) (h1 : st'.sim.n = st.sim.n)
    (h2 : st'.sim.measured = st.sim.measured) (h3 : st'.qubits = st.qubits) : Agree st' :=
  ⟨by rw [h2, h1]; exact h.flags, by rw [h3, h1]; exact h.count, fun i hi => by rw [h3, h2]; exact h.same i (by rw [← h1]; exact hi)⟩

abbrev Agr {α : Type} (m : EM α) : Prop := Hoare Agree (fun _ _ => True) m

/-- closes `Agree <state with the same sim and qubits> ∧ True` -/
macro "agr_same" : tactic => `(tactic| exact ⟨Agree.same_sim ‹Agree _› rfl rfl rfl, trivial⟩)

macro "agr_prim" defs:ident* : tactic => `(tactic|
  (intro st hi a st' hr; unfold $defs:ident* at hr; prim_cases hr <;> (try dsimp only) <;> (repeat' split) <;>
    exact ⟨Agree.same_sim hi rfl rfl rfl, trivial⟩))

theorem agr_simGate (op : QOp Float) : Agr (simGate op) := by
  intro st hi a st' hr
  unfold simGate at hr
  prim_cases hr
  rename_i s hg
  obtain ⟨h1, h2⟩ := gate1_flags _ _ _ _ hg
  exact ⟨Agree.same_sim hi h1 h2 rfl, trivial⟩

theorem agr_simCx (c t : Int) : Agr (simCx c t) := by
  intro st hi a st' hr
  unfold simCx at hr
  prim_cases hr
  rename_i s hg
  obtain ⟨h1, h2⟩ := cx_flags _ _ _ _ hg
  exact ⟨Agree.same_sim hi h1 h2 rfl, trivial⟩

theorem ensureQubitActive_spec (q : Int) (p : Parse.P) (st st' : EState) (a : Unit)
    (hr : (ensureQubitActive q p).run st = .ok (a, st')) :
    st' = st ∧ 0 ≤ q ∧ q < st.qubits.length ∧ (st.qubits.getD q.toNat default).measured = false := by
  unfold ensureQubitActive ensureQubitExists at hr
  prim_cases hr
  rename_i h1 h2
  simp only [Bool.or_eq_true, decide_eq_true_eq, not_or, ge_iff_le] at h1
  refine ⟨rfl, by omega, by omega, ?_⟩
  simpa using h2

theorem simMeasure_flags_spec (q : Int) (st st' : EState) (b : Int) (hr : (simMeasure q).run st = .ok (b, st')) :
    ∃ r s res, Sim.measure floatOps st.sim q.toNat r = .ok (s, res) ∧ st'.sim = s ∧ st'.qubits = st.qubits := by
  unfold simMeasure nextDraw at hr
  prim_cases hr
  · exact ⟨_, _, _, ‹_›, rfl, rfl⟩
  · exact ⟨_, _, _, ‹_›, rfl, rfl⟩

theorem markMeasured_spec (q : Int) (st st' : EState) (a : Unit) (hr : (markMeasured q).run st = .ok (a, st'))
    (h0 : 0 ≤ q) (h1 : q < st.qubits.length) :
    st'.sim = st.sim ∧
      st'.qubits = st.qubits.set q.toNat { name := (st.qubits.getD q.toNat default).name, measured := true } := by
  unfold markMeasured at hr
  rw [run_modify] at hr
  cases hr
  have : (decide (q ≥ 0) && decide (q < (st.qubits.length : Int))) = true := by simp [h0, h1]
  rw [if_pos this]
  exact ⟨rfl, rfl⟩

theorem setLastMeasurement_spec (q b : Int) (st st' : EState) (a : Unit)
    (hr : (setLastMeasurement q b).run st = .ok (a, st')) : st'.sim = st.sim ∧ st'.qubits = st.qubits := by
  unfold setLastMeasurement at hr
  rw [run_modify] at hr
  cases hr
  split <;> exact ⟨rfl, rfl⟩

theorem agr_measureQubit (q : Int) (p : Parse.P) : Agr (measureQubit q p) := by
  intro st hi a st4 hr
  unfold measureQubit at hr
  obtain ⟨_, st1, h1, hr⟩ := run_bind_ok hr
  obtain ⟨bit, st2, h2, hr⟩ := run_bind_ok hr
  obtain ⟨_, st3, h3, hr⟩ := run_bind_ok hr
  obtain ⟨_, st4', h4, hr⟩ := run_bind_ok hr
  rw [run_pure] at hr
  cases hr
  obtain ⟨e1, hq0, hq1, hnm⟩ := ensureQubitActive_spec q p st st1 _ h1
  subst e1
  obtain ⟨r, s, res, hm, hs2, hq2⟩ := simMeasure_flags_spec q _ st2 bit h2
  obtain ⟨hs3, hq3⟩ := markMeasured_spec q st2 st3 _ h3 hq0 (by rw [hq2]; exact hq1)
  obtain ⟨hs4, hq4⟩ := setLastMeasurement_spec q bit st3 st4 _ h4
  obtain ⟨f1, f2, f3⟩ := measure_flags _ _ _ _ _ _ hm
  have hqn : q.toNat < st1.sim.n := (ensureActive_ok _ _ f3).1
  refine ⟨Agree.set_both hi q.toNat hqn true _ s f1 f2 _ rfl st4 (by rw [hs4, hs3, hs2]) (by rw [hq4, hq3, hq2]), trivial⟩

theorem ensureQubitExists_spec (q : Int) (p : Parse.P) (st st' : EState) (a : Unit)
    (hr : (ensureQubitExists q p).run st = .ok (a, st')) : st' = st ∧ 0 ≤ q ∧ q < st.qubits.length := by
  unfold ensureQubitExists at hr
  prim_cases hr
  rename_i h1
  simp only [Bool.or_eq_true, decide_eq_true_eq, not_or, ge_iff_le] at h1
  exact ⟨rfl, by omega, by omega⟩

theorem simReset_spec (q : Int) (st st' : EState) (a : Unit) (hr : (simReset q).run st = .ok (a, st')) :
    ∃ r s res, 0 ≤ q ∧ Sim.reset floatOps st.sim q.toNat r = .ok (s, res) ∧ st'.sim = s ∧ st'.qubits = st.qubits := by
  unfold simReset nextDraw at hr
  prim_cases hr
  · exact ⟨_, _, _, by omega, ‹_›, rfl, rfl⟩
  · exact ⟨_, _, _, by omega, ‹_›, rfl, rfl⟩

theorem unmarkMeasured_spec (q : Int) (st st' : EState) (a : Unit) (hr : (unmarkMeasured q).run st = .ok (a, st'))
    (h0 : 0 ≤ q) (h1 : q < st.qubits.length) :
    st'.sim = st.sim ∧
      st'.qubits = st.qubits.set q.toNat { name := (st.qubits.getD q.toNat default).name, measured := false } := by
  unfold unmarkMeasured at hr
  rw [run_modify] at hr
  cases hr
  have : (decide (q ≥ 0) && decide (q < (st.qubits.length : Int))) = true := by simp [h0, h1]
  rw [if_pos this]
  exact ⟨rfl, rfl⟩

theorem agr_resetQubit (q : Int) (p : Parse.P) : Agr (resetQubit q p) := by
  intro st hi a st3 hr
  unfold resetQubit at hr
  obtain ⟨_, st1, h1, hr⟩ := run_bind_ok hr
  obtain ⟨_, st2, h2, h3⟩ := run_bind_ok hr
  obtain ⟨e1, hq0, hq1⟩ := ensureQubitExists_spec q p st st1 _ h1
  subst e1
  obtain ⟨r, s, res, _, hm, hs2, hq2⟩ := simReset_spec q _ st2 _ h2
  obtain ⟨hs3, hq3⟩ := unmarkMeasured_spec q st2 st3 _ h3 hq0 (by rw [hq2]; exact hq1)
  obtain ⟨f1, f2, f3⟩ := reset_flags _ _ _ _ _ _ hm
  exact ⟨Agree.set_both hi q.toNat f3 false _ s f1 f2 _ rfl st3 (by rw [hs3, hs2]) (by rw [hq3, hq2]), trivial⟩

theorem arr_push_get (a : Array Bool) (i : Nat) (v : Bool) :
    (a.push v)[i]! = if i < a.size then a[i]! else if i = a.size then v else default := by
  simp only [getElem!_def, Array.getElem?_push]
  by_cases h1 : i < a.size
  · have : ¬ i = a.size := by omega
    simp [h1, this]
  · by_cases h2 : i = a.size
    · simp [h2]
    · simp [h1, h2]

/-- the fresh-index branch of `allocateTrackedQubit` simply appends the new qubit's entry -/
theorem fresh_entry (qs : List QubitInfo) (n : Nat) (hq : qs.length = n) (v : QubitInfo) :
    setNth (if ((n : Nat) : Int) ≥ ((qs ++ [v]).length : Int) then
        qs ++ [v] ++ List.replicate (((n : Nat) : Int).toNat + 1 - (qs ++ [v]).length) default else qs ++ [v])
      ((n : Nat) : Int).toNat v = qs ++ [v] := by
  have hnp : ¬ (((n : Nat) : Int) ≥ ((qs ++ [v]).length : Int)) := by
    rw [List.length_append, hq]; simp only [List.length_cons, List.length_nil]; omega
  rw [if_neg hnp]
  unfold setNth
  simp only [Int.toNat_natCast]
  rw [← hq, List.set_append_right _ _ (Nat.le_refl _)]
  simp

theorem agr_allocate (name : String) : Agr (allocateTrackedQubit name) := by
  intro st hi a st' hr
  unfold allocateTrackedQubit at hr
  rw [run_bind', run_get, ebind_ok] at hr
  simp only at hr
  split at hr
  · rename_i idx rest hfree
    obtain ⟨_, st1, h1, hr⟩ := run_bind_ok hr
    rw [run_set] at h1
    have e1 : st1 = { st with freeQubits := rest } := ((Prod.mk.inj (Except.ok.inj h1)).2).symm
    obtain ⟨_, st2, h2, hr⟩ := run_bind_ok hr
    obtain ⟨_, st3, h3, hr⟩ := run_bind_ok hr
    obtain ⟨_, st4, h4, hr⟩ := run_bind_ok hr
    rw [run_pure] at hr
    have e5 : st' = st4 := ((Prod.mk.inj (Except.ok.inj hr)).2).symm
    rw [run_modify] at h4
    have e4 := ((Prod.mk.inj (Except.ok.inj h4)).2).symm
    obtain ⟨r, s, res, hq0, hm, hs2, hq2⟩ := simReset_spec idx st1 st2 _ h2
    have hsim1 : st1.sim = st.sim := by rw [e1]
    have hqs1 : st1.qubits = st.qubits := by rw [e1]
    rw [hsim1] at hm
    rw [hqs1] at hq2
    obtain ⟨f1, f2, f3⟩ := reset_flags _ _ _ _ _ _ hm
    have hlen : idx < (st.qubits.length : Int) := by
      have := hi.count
      have f3' : idx.toNat < st.sim.n := f3
      omega
    obtain ⟨hs3, hq3⟩ := unmarkMeasured_spec idx st2 st3 _ h3 hq0 (by rw [hq2]; exact hlen)
    have hl3 : st3.qubits.length = st.qubits.length := by rw [hq3, List.length_set, hq2]
    have hnp : ¬ (idx ≥ (st3.qubits.length : Int)) := by rw [hl3]; omega
    have hsim4 : st4.sim = s := by rw [e4]; show st3.sim = s; rw [hs3, hs2]
    have hqs4 : st4.qubits = st.qubits.set idx.toNat { name := name, measured := false } := by
      rw [e4]
      show setNth (if idx ≥ (st3.qubits.length : Int) then _ else st3.qubits) idx.toNat _ = _
      rw [if_neg hnp, hq3, hq2]
      unfold setNth
      exact List.set_set ..
    rw [e5]
    exact ⟨Agree.set_both hi idx.toNat f3 false name s f1 f2 _ rfl st4 hsim4 hqs4, trivial⟩
  · obtain ⟨_, st1, h1, hr⟩ := run_bind_ok hr
    rw [run_set] at h1
    have e1 := ((Prod.mk.inj (Except.ok.inj h1)).2).symm
    rw [run_pure] at hr
    have e5 : st' = st1 := ((Prod.mk.inj (Except.ok.inj hr)).2).symm
    obtain ⟨a1, a2, a3⟩ := allocate_flags floatOps st.sim hi.flags
    have hsim : st1.sim = (allocate floatOps st.sim).1 := by rw [e1]
    have hqs : st1.qubits = st.qubits ++ [{ name := name, measured := false }] := by
      rw [e1]
      show setNth _ _ _ = _
      rw [a1]
      exact fresh_entry st.qubits st.sim.n hi.count _
    rw [e5]
    refine ⟨⟨?_, ?_, ?_⟩, trivial⟩
    · rw [hsim, a2, a3, Array.size_push, hi.flags]
    · rw [hqs, hsim, a2, List.length_append, hi.count]; rfl
    · intro i hil
      rw [hsim, a2] at hil
      rw [hqs, hsim, a3, arr_push_get, hi.flags]
      by_cases hin : i < st.sim.n
      · rw [if_pos hin, List.getD_eq_getElem?_getD, List.getElem?_append_left (by rw [hi.count]; exact hin),
          ← List.getD_eq_getElem?_getD]
        exact hi.same i hin
      · have he : i = st.sim.n := by omega
        rw [if_neg hin, if_pos he, List.getD_eq_getElem?_getD, List.getElem?_append_right (by rw [hi.count]; omega)]
        rw [he, hi.count]; simp

theorem agree_prims : PrimsHoare Agree (fun _ _ => True) where
  refl := fun _ => trivial
  trans := fun _ _ _ _ _ => trivial
  lookup := fun n => by (agr_prim lookup)
  assignVar := fun n v => by (agr_prim assignVar)
  declareVar := fun n e => by (agr_prim declareVar)
  beginScope := by (agr_prim beginScope)
  endScope := by (agr_prim endScope)
  enterFrame := by (agr_prim enterFrame)
  leaveFrame := fun d => by (agr_prim leaveFrame)
  getHasReturn := by (agr_prim getHasReturn)
  setHasReturn := fun b => by (agr_prim setHasReturn)
  clearReturn := by (agr_prim clearReturn)
  getReturnValue := by (agr_prim getReturnValue)
  setReturnValue := fun v => by (agr_prim setReturnValue)
  lookupFnM := fun n => by (agr_prim lookupFnM)
  echoLine := fun l => by (agr_prim echoLine)
  allocateTrackedQubit := agr_allocate
  ensureQubitActive := fun i p => by (agr_prim ensureQubitActive ensureQubitExists)
  resetQubit := agr_resetQubit
  simGate := agr_simGate
  simCx := agr_simCx
  measureQubit := agr_measureQubit

/-- **In every state a program can reach, the evaluator's measured flags are the simulator's.** -/
theorem call_keeps_flags_in_agreement (fuel : Nat) (fn : FuncDecl) (args : List Value) (st st' : EState) (v : Value)
    (hi : Agree st) (h : (call fuel fn args).run st = .ok (v, st')) : Agree st' :=
  (hoare_call agree_prims fuel fn args st hi v st' h).1

theorem exec_keeps_flags_in_agreement (fuel : Nat) (s : Stmt) (st st' : EState)
    (hi : Agree st) (h : (exec fuel s).run st = .ok ((), st')) : Agree st' :=
  (hoare_exec agree_prims fuel s st hi () st' h).1

end BlochVerif.Eval
