import BlochVerif.Eval.Hoare
/-!
# The operation log only grows (C05, whole-evaluator form)

Whatever a program does, the simulator's operation log — the source of the emitted OpenQASM — is only ever extended
at the end, by the operations the simulator performed; the logging switch never changes.
-/
namespace BlochVerif.Eval
open BlochVerif BlochVerif.Parse BlochVerif.Sim

def Grows {K R : Type} (a b : Sim.State K R) : Prop := (∃ suf, b.ops = a.ops ++ suf) ∧ b.logOps = a.logOps

section simFacts
variable {K R : Type} [Inhabited K] [Add K] [Mul K]

theorem Grows.refl (a : Sim.State K R) : Grows a a := ⟨⟨[], by simp⟩, rfl⟩

theorem Grows.trans {a b c : Sim.State K R} (h1 : Grows a b) (h2 : Grows b c) : Grows a c := by
  obtain ⟨⟨s1, e1⟩, l1⟩ := h1
  obtain ⟨⟨s2, e2⟩, l2⟩ := h2
  exact ⟨⟨s1 ++ s2, by rw [e2, e1, List.append_assoc]⟩, l2.trans l1⟩

theorem grows_log (st : Sim.State K R) (op : QOp R) : Grows st (st.log op) := by
  unfold State.log
  split
  · exact ⟨⟨[op], rfl⟩, rfl⟩
  · exact Grows.refl st

theorem grows_of_fields {a b : Sim.State K R} (h1 : b.ops = a.ops) (h2 : b.logOps = a.logOps) : Grows a b :=
  ⟨⟨[], by simp [h1]⟩, h2⟩

theorem gate1_grows (o : ROps K R) (st s : Sim.State K R) (op : QOp R) (h : gate1 o st op = .ok s) : Grows st s := by
  unfold gate1 at h
  split at h
  · cases h; exact Grows.refl st
  · rename_i q m _
    cases he : ensureActive st q with
    | error e => rw [he] at h; cases h
    | ok u =>
      rw [he] at h
      simp only [bind, Except.bind, pure, Except.pure, Except.ok.injEq] at h
      rw [← h]
      exact Grows.trans (grows_of_fields rfl rfl) (grows_log _ op)

theorem cx_grows (st s : Sim.State K R) (c t : Nat) (h : cx st c t = .ok s) : Grows st s := by
  unfold cx at h
  cases h1 : ensureActive st c with
  | error e => rw [h1] at h; cases h
  | ok u =>
    rw [h1] at h
    cases h2 : ensureActive st t with
    | error e => simp only [bind, Except.bind] at h; rw [h2] at h; cases h
    | ok u2 =>
      simp only [bind, Except.bind] at h
      rw [h2] at h
      simp only at h
      split at h
      · cases h
      · simp only [pure, Except.pure, Except.ok.injEq] at h
        rw [← h]
        exact Grows.trans (grows_of_fields rfl rfl) (grows_log _ _)

theorem measure_grows (o : ROps K R) (st s : Sim.State K R) (q res : Nat) (r : R)
    (h : Sim.measure o st q r = .ok (s, res)) : Grows st s := by
  unfold Sim.measure at h
  cases h1 : ensureActive st q with
  | error e => rw [h1] at h; cases h
  | ok u =>
    rw [h1] at h
    simp only [bind, Except.bind, pure, Except.pure, Except.ok.injEq, Prod.mk.injEq] at h
    rw [← h.1]
    unfold measureCore
    dsimp only
    generalize collapse o st.amps q _ _ = A
    have hX := grows_log ({ st with amps := A } : Sim.State K R) (.measure q)
    exact ⟨hX.1, hX.2⟩

theorem reset_grows (o : ROps K R) (st s : Sim.State K R) (q res : Nat) (r : R) (h : reset o st q r = .ok (s, res)) :
    Grows st s := by
  unfold reset at h
  by_cases hq : q ≥ st.n
  · simp only [hq, if_true, bind, Except.bind, throw, throwThe, MonadExceptOf.throw] at h
    cases h
  · simp only [hq, if_false, bind, Except.bind, pure, Except.pure, Except.ok.injEq, Prod.mk.injEq] at h
    rw [← h.1]
    unfold resetCore
    dsimp only
    split
    all_goals (
      generalize collapse o st.amps q _ _ = A
      first
        | (have hX := grows_log ({ st with measured := st.measured.setIfInBounds q false, amps := swapDown o A q } : Sim.State K R) (.reset q)
           exact ⟨hX.1, hX.2⟩)
        | (have hX := grows_log ({ st with measured := st.measured.setIfInBounds q false, amps := A } : Sim.State K R) (.reset q)
           exact ⟨hX.1, hX.2⟩))

theorem allocate_grows (o : ROps K R) (st : Sim.State K R) : Grows st (allocate o st).1 := grows_of_fields rfl rfl

end simFacts

/-- the step relation on evaluator states -/
def LogGrows (s s' : EState) : Prop := Grows s.sim s'.sim

abbrev Lg {α : Type} (m : EM α) : Prop := Hoare (fun _ => True) LogGrows m

/-- `Lg prim` for a primitive: enumerate the successful paths; the simulator component is either untouched or the
result of one simulator call whose equation is among the hypotheses -/
macro "lg_prim" defs:ident* : tactic => `(tactic|
  (intro st _ a st' hr; unfold $defs:ident* at hr; prim_cases hr <;> (try dsimp only) <;> (repeat' split) <;>
    refine ⟨trivial, ?_⟩ <;> first
      | exact Grows.refl _
      | exact gate1_grows _ _ _ _ ‹_›
      | exact cx_grows _ _ _ _ ‹_›
      | exact measure_grows _ _ _ _ _ _ ‹_›
      | exact reset_grows _ _ _ _ _ _ ‹_›
      | exact allocate_grows _ _))

theorem loggrows_prims : PrimsHoare (fun _ => True) LogGrows where
  refl := fun s => Grows.refl s.sim
  trans := fun _ _ _ h1 h2 => Grows.trans h1 h2
  lookup := fun n => by (lg_prim lookup)
  assignVar := fun n v => by (lg_prim assignVar)
  declareVar := fun n e => by (lg_prim declareVar)
  beginScope := by (lg_prim beginScope)
  endScope := by (lg_prim endScope)
  enterFrame := by (lg_prim enterFrame)
  leaveFrame := fun d => by (lg_prim leaveFrame)
  getHasReturn := by (lg_prim getHasReturn)
  setHasReturn := fun b => by (lg_prim setHasReturn)
  clearReturn := by (lg_prim clearReturn)
  getReturnValue := by (lg_prim getReturnValue)
  setReturnValue := fun v => by (lg_prim setReturnValue)
  lookupFnM := fun n => by (lg_prim lookupFnM)
  echoLine := fun l => by (lg_prim echoLine)
  allocateTrackedQubit := fun n => by (lg_prim allocateTrackedQubit simReset nextDraw unmarkMeasured)
  ensureQubitActive := fun i p => by (lg_prim ensureQubitActive ensureQubitExists)
  resetQubit := fun q p => by (lg_prim resetQubit ensureQubitExists simReset nextDraw unmarkMeasured)
  simGate := fun op => by (lg_prim simGate)
  simCx := fun c t => by (lg_prim simCx)
  measureQubit := fun q p => by
    (lg_prim measureQubit ensureQubitActive ensureQubitExists simMeasure nextDraw markMeasured setLastMeasurement)

/-- **No program retracts or rewrites an emitted operation.** -/
theorem call_only_extends_the_log (fuel : Nat) (fn : FuncDecl) (args : List Value) (st st' : EState) (v : Value)
    (h : (call fuel fn args).run st = .ok (v, st')) :
    (∃ suf, st'.sim.ops = st.sim.ops ++ suf) ∧ st'.sim.logOps = st.sim.logOps :=
  (hoare_call loggrows_prims fuel fn args st trivial v st' h).2

end BlochVerif.Eval
