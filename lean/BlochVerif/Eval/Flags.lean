/-!
# The measured-flag machine (C06)

The evaluator keeps one flag per qubit (`m_qubits[i].measured`): `markMeasured` after a measurement,
`unmarkMeasured` on reset / re-allocation, `ensureQubitActive` before every gate and measurement.  This file
is that machine on its own: operations on qubit indices, refusal = `none`.
-/
namespace BlochVerif.Flags

inductive Op where
  | gate (q : Nat)
  | cx (c t : Nat)
  | measure (q : Nat)
  | reset (q : Nat)
  /-- `measure r;` on a qubit[]: elements are checked and marked in index order -/
  | measureArr (qs : List Nat)
deriving Repr, DecidableEq

def isMeasured (m : List Bool) (q : Nat) : Bool := m.getD q false

def setFlag (m : List Bool) (q : Nat) (b : Bool) : List Bool := m.set q b

def measureAll : List Bool → List Nat → Option (List Bool)
  | m, [] => some m
  | m, q :: qs => if isMeasured m q then none else measureAll (setFlag m q true) qs

/-- one operation: `none` = refused by `ensureQubitActive` -/
def step (m : List Bool) : Op → Option (List Bool)
  | .gate q => if isMeasured m q then none else some m
  | .cx c t => if isMeasured m c || isMeasured m t then none else some m
  | .measure q => if isMeasured m q then none else some (setFlag m q true)
  | .reset q => some (setFlag m q false)
  | .measureArr qs => measureAll m qs

/-- index of the first refused operation -/
def firstRefused : List Bool → List Op → Nat → Option Nat
  | _, [], _ => none
  | m, op :: ops, k =>
    match step m op with
    | none => some k
    | some m' => firstRefused m' ops (k + 1)

/-! ### the specification: what the history says about a qubit -/

/-- does `op` leave `q` measured (`some true`), usable (`some false`), or as it was (`none`)? -/
def effect (q : Nat) : Op → Option Bool
  | .measure q' => if q' = q then some true else none
  | .reset q' => if q' = q then some false else none
  | .measureArr qs => if q ∈ qs then some true else none
  | _ => none

/-- the last {declare, reset, measure} event of `q` in the history was a measure (`init`: its flag before
the history started) -/
def measuredBy (q : Nat) (init : Bool) (hist : List Op) : Bool :=
  hist.foldl (fun b op => (effect q op).getD b) init

def touches : Op → List Nat
  | .gate q => [q]
  | .cx c t => [c, t]
  | .measure q => [q]
  | .reset _ => []
  | .measureArr qs => qs

def WFOp : Op → Prop
  | .measureArr qs => qs.Nodup
  | _ => True

end BlochVerif.Flags
