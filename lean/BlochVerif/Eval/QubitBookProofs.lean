import BlochVerif.Eval.QubitBook
/-! Invariant of the qubit book: live handles and free indices are pairwise distinct and below the register size. -/
namespace BlochVerif.QubitBook

def Inv (b : Book) : Prop := (b.live ++ b.free).Nodup ∧ ∀ x ∈ b.live ++ b.free, x < b.next

theorem inv_init : Inv {} := by simp [Inv, Book.live]

theorem release_eq (free hs : List Nat) : release free hs = hs.reverse ++ free := by
  induction hs generalizing free with
  | nil => rfl
  | cons h hs ih => simp [release, ih]

theorem takeOwner_perm (id : Nat) : ∀ (owned : List (Nat × List Nat)) (hs : List Nat) (r : List (Nat × List Nat)),
    takeOwner id owned = some (hs, r) → (owned.flatMap (·.2)).Perm (hs ++ r.flatMap (·.2)) := by
  intro owned
  induction owned with
  | nil => intro hs r h; simp [takeOwner] at h
  | cons o rest ih =>
    intro hs r h
    simp only [takeOwner] at h
    split at h
    · cases h; simp
    · cases ht : takeOwner id rest with
      | none => simp [ht] at h
      | some p =>
        obtain ⟨hs', r'⟩ := p
        simp only [ht, Option.some.injEq, Prod.mk.injEq] at h
        obtain ⟨h1, h2⟩ := h
        subst h1; subst h2
        have := ih hs' r' ht
        simp only [List.flatMap_cons]
        -- o.2 ++ flat rest ~ o.2 ++ (hs' ++ flat r') ~ hs' ++ (o.2 ++ flat r')
        refine (List.Perm.append_left o.2 this).trans ?_
        rw [← List.append_assoc, ← List.append_assoc]
        exact List.Perm.append_right _ List.perm_append_comm

/-- one allocation: the handle is new (not live, not free any more), the invariant holds with it live -/
theorem alloc_spec (b : Book) (hi : Inv b) :
    let (b1, h) := alloc b
    b1.owned = b.owned ∧ h ∉ b.live ∧ (h :: (b1.live ++ b1.free)).Nodup ∧ (∀ x ∈ h :: (b1.live ++ b1.free), x < b1.next) := by
  obtain ⟨hn, hb⟩ := hi
  unfold alloc
  cases hf : b.free with
  | nil =>
    simp only
    rw [hf] at hn hb
    simp only [List.append_nil] at hn hb
    refine ⟨by first | rfl | trivial, ?_, ?_, ?_⟩
    · intro hm; exact absurd (hb _ hm) (Nat.lt_irrefl _)
    · simp only [Book.live, List.append_nil]
      refine List.nodup_cons.mpr ⟨?_, hn⟩
      intro hm; exact absurd (hb _ hm) (Nat.lt_irrefl _)
    · intro x hx
      simp only [Book.live, List.append_nil, List.mem_cons] at hx
      rcases hx with rfl | hx
      · exact Nat.lt_succ_self _
      · exact Nat.lt_succ_of_lt (hb x hx)
  | cons h rest =>
    simp only
    rw [hf] at hn hb
    have hperm : (b.live ++ h :: rest).Perm (h :: (b.live ++ rest)) := List.perm_middle
    have hn' := hperm.nodup_iff.mp hn
    refine ⟨by first | rfl | trivial, ?_, hn', ?_⟩
    · intro hm
      have := (List.nodup_cons.mp hn').1
      exact this (List.mem_append_left _ hm)
    · intro x hx
      exact hb x (hperm.symm.subset hx)

theorem alloc_live (b : Book) : (alloc b).1.live = b.live := by
  unfold alloc; cases b.free <;> rfl

/-- `k` allocations: the handles are pairwise distinct, none was live, the invariant holds with them live -/
theorem allocMany_spec : ∀ (k : Nat) (b : Book), Inv b →
    let (b1, hs) := allocMany k b
    b1.owned = b.owned ∧ (∀ h ∈ hs, h ∉ b.live) ∧ (hs ++ (b1.live ++ b1.free)).Nodup ∧
      (∀ x ∈ hs ++ (b1.live ++ b1.free), x < b1.next) := by
  intro k
  induction k with
  | zero => intro b hi; exact ⟨rfl, by simp [allocMany], by simpa [allocMany] using hi.1, by simpa [allocMany] using hi.2⟩
  | succ k ih =>
    intro b hi
    simp only [allocMany]
    have ha := alloc_spec b hi
    -- a state in which the new handle is already counted as live (held by a pending owner)
    cases hab : alloc b with
    | mk b1 h =>
      rw [hab] at ha
      simp only at ha
      obtain ⟨ho, hnl, hnd, hbd⟩ := ha
      -- treat h as live by adding a provisional owner
      let b1' : Book := { b1 with owned := (0, [h]) :: b1.owned }
      have hinv' : Inv b1' := by
        refine ⟨?_, ?_⟩
        · simpa [b1', Book.live] using hnd
        · simpa [b1', Book.live] using hbd
      have := ih b1' hinv'
      cases hm : allocMany k b1 with
      | mk b2 hs =>
        have hm' : allocMany k b1' = ({ b2 with owned := (0, [h]) :: b2.owned }, hs) := by
          clear this hinv'
          -- allocMany never looks at `owned`
          have key : ∀ (k : Nat) (c : Book) (ow : List (Nat × List Nat)),
              allocMany k { c with owned := ow } =
                ({ (allocMany k c).1 with owned := ow }, (allocMany k c).2) := by
            intro k
            induction k with
            | zero => intro c ow; rfl
            | succ k ihk =>
              intro c ow
              simp only [allocMany]
              have ha : alloc { c with owned := ow } = ({ (alloc c).1 with owned := ow }, (alloc c).2) := by
                unfold alloc; cases c.free <;> rfl
              rw [ha]
              simp only
              rw [ihk]
          have := key k b1 ((0, [h]) :: b1.owned)
          simp only [b1']
          rw [this, hm]
          have hb2 : b2.owned = b1.owned := by
            have key2 : ∀ (k : Nat) (c : Book), (allocMany k c).1.owned = c.owned := by
              intro k
              induction k with
              | zero => intro c; rfl
              | succ k ihk =>
                intro c
                simp only [allocMany]
                rw [ihk]
                unfold alloc; cases c.free <;> rfl
            have := key2 k b1; rw [hm] at this; exact this
          simp [hb2]
        rw [hm'] at this
        simp only at this
        obtain ⟨_, h2, h3, h4⟩ := this
        have hb2 : b2.owned = b1.owned := by
          have key2 : ∀ (k : Nat) (c : Book), (allocMany k c).1.owned = c.owned := by
            intro k
            induction k with
            | zero => intro c; rfl
            | succ k ihk =>
              intro c
              simp only [allocMany]
              rw [ihk]
              unfold alloc; cases c.free <;> rfl
          have := key2 k b1; rw [hm] at this; exact this
        simp only
        refine ⟨by rw [hb2, ho], ?_, ?_, ?_⟩
        · intro x hx
          rcases List.mem_cons.mp hx with rfl | hx
          · exact hnl
          · have := h2 x hx
            intro hxl
            apply this
            simp only [b1', Book.live, List.flatMap_cons, List.mem_append]
            right
            have : b1.live = b.live := by simp [Book.live, ho]
            rw [← this] at hxl
            exact hxl
        · -- (h :: hs) ++ live2 ++ free2 is a permutation of hs ++ ([h] ++ live2) ++ free2
          have hp : (hs ++ (({ b2 with owned := (0, [h]) :: b2.owned } : Book).live ++ b2.free)).Perm
              ((h :: hs) ++ (b2.live ++ b2.free)) := by
            simp only [Book.live, List.flatMap_cons, List.singleton_append, List.cons_append]
            exact List.perm_middle
          exact hp.nodup_iff.mp h3
        · intro x hx
          have hp : (hs ++ (({ b2 with owned := (0, [h]) :: b2.owned } : Book).live ++ b2.free)).Perm
              ((h :: hs) ++ (b2.live ++ b2.free)) := by
            simp only [Book.live, List.flatMap_cons, List.singleton_append, List.cons_append]
            exact List.perm_middle
          exact h4 x (hp.symm.subset hx)

theorem step_spec (b : Book) (hi : Inv b) (op : Op) :
    Inv (step b op).1 ∧ (∀ h ∈ (step b op).2, h ∉ b.live) ∧ (step b op).2.Nodup := by
  cases op with
  | declare k =>
    simp only [step]
    have := allocMany_spec k b hi
    cases hm : allocMany k b with
    | mk b1 hs =>
      rw [hm] at this
      simp only at this
      obtain ⟨_, h2, h3, h4⟩ := this
      refine ⟨⟨?_, ?_⟩, h2, (List.nodup_append.mp h3).1⟩
      · simpa [Book.live, List.append_assoc] using h3
      · simpa [Book.live, List.append_assoc] using h4
  | newObj id k =>
    simp only [step]
    have := allocMany_spec k b hi
    cases hm : allocMany k b with
    | mk b1 hs =>
      rw [hm] at this
      simp only at this
      obtain ⟨_, h2, h3, h4⟩ := this
      refine ⟨⟨?_, ?_⟩, h2, (List.nodup_append.mp h3).1⟩
      · simpa [Book.live, List.append_assoc] using h3
      · simpa [Book.live, List.append_assoc] using h4
  | destroy id =>
    simp only [step]
    cases ht : takeOwner (id + 1) b.owned with
    | none => exact ⟨hi, by simp, by simp⟩
    | some p =>
      obtain ⟨hs, r⟩ := p
      simp only
      refine ⟨?_, by simp, by simp⟩
      have hp := takeOwner_perm (id + 1) b.owned hs r ht
      obtain ⟨hn, hb⟩ := hi
      have hperm : (r.flatMap (·.2) ++ release b.free hs).Perm (b.live ++ b.free) := by
        rw [release_eq]
        have h1 : (r.flatMap (·.2) ++ (hs.reverse ++ b.free)).Perm (hs ++ r.flatMap (·.2) ++ b.free) := by
          rw [← List.append_assoc]
          refine List.Perm.append_right _ ?_
          exact (List.perm_append_comm).trans (List.Perm.append_right _ (List.reverse_perm hs))
        exact h1.trans (List.Perm.append_right _ hp.symm)
      refine ⟨?_, ?_⟩
      · exact hperm.nodup_iff.mpr hn
      · intro x hx
        exact hb x (hperm.subset hx)

theorem run_inv : ∀ (ops : List Op) (b : Book), Inv b → Inv (run b ops).1 := by
  intro ops
  induction ops with
  | nil => intro b hi; exact hi
  | cons op ops ih =>
    intro b hi
    simp only [run]
    exact ih _ (step_spec b hi op).1

end BlochVerif.QubitBook
