import BlochVerif.Eval.Hoare
/-!
# What no program can touch: the function table, the echo switch; what it can only extend: echo, outcomes, draws
-/
namespace BlochVerif.Eval
open BlochVerif BlochVerif.Parse

/-- the step relation "only forward": control fields fixed, logs extended, draws consumed from the front -/
structure Forward (s s' : EState) : Prop where
  fn : s'.lookupFn = s.lookupFn
  sw : s'.echoEnabled = s.echoEnabled
  echo : ∃ pre, s'.echo = pre ++ s.echo
  quiet : s.echoEnabled = false → s'.echo = s.echo
  outcomes : ∃ pre, s'.outcomes = pre ++ s.outcomes
  draws : ∃ k, s'.draws = s.draws.drop k

theorem Forward.refl (s : EState) : Forward s s :=
  ⟨rfl, rfl, ⟨[], rfl⟩, fun _ => rfl, ⟨[], rfl⟩, ⟨0, rfl⟩⟩

theorem Forward.trans (a b c : EState) (h1 : Forward a b) (h2 : Forward b c) : Forward a c := by
  obtain ⟨p1, hp1⟩ := h1.echo
  obtain ⟨p2, hp2⟩ := h2.echo
  obtain ⟨q1, hq1⟩ := h1.outcomes
  obtain ⟨q2, hq2⟩ := h2.outcomes
  obtain ⟨k1, hk1⟩ := h1.draws
  obtain ⟨k2, hk2⟩ := h2.draws
  refine ⟨h2.fn.trans h1.fn, h2.sw.trans h1.sw, ⟨p2 ++ p1, by rw [hp2, hp1, List.append_assoc]⟩, ?_,
    ⟨q2 ++ q1, by rw [hq2, hq1, List.append_assoc]⟩, ⟨k1 + k2, by rw [hk2, hk1, List.drop_drop]⟩⟩
  intro h
  rw [h2.quiet (by rw [h1.sw]; exact h), h1.quiet h]

/-- a state update that leaves the six fields alone -/
theorem Forward.of_same {s s' : EState} (h1 : s'.lookupFn = s.lookupFn) (h2 : s'.echoEnabled = s.echoEnabled)
    (h3 : s'.echo = s.echo) (h4 : s'.outcomes = s.outcomes) (h5 : s'.draws = s.draws) : Forward s s' :=
  ⟨h1, h2, ⟨[], by simp [h3]⟩, fun _ => h3, ⟨[], by simp [h4]⟩, ⟨0, by simp [h5]⟩⟩

abbrev Fwd {α : Type} (m : EM α) : Prop := Hoare (fun _ => True) Forward m

theorem fwd_modify (f : EState → EState) (h : ∀ s, Forward s (f s)) : Fwd (modify f : EM Unit) := by
  intro st _ a st' hr
  rw [run_modify] at hr
  cases hr
  exact ⟨trivial, h st⟩

theorem fwd_bind {α β : Type} (m : EM α) (f : α → EM β) (hm : Fwd m) (hf : ∀ a, Fwd (f a)) : Fwd (m >>= f) :=
  Hoare.bind Forward.trans m f hm hf

theorem fwd_pure {α : Type} (a : α) : Fwd (pure a : EM α) := Hoare.pure Forward.refl a
theorem fwd_throw {α : Type} (e : RErr) : Fwd (throw e : EM α) := Hoare.throw e

theorem fwd_get : Fwd (get : EM EState) := by
  intro st _ a st' hr
  rw [run_get] at hr
  cases hr
  exact ⟨trivial, Forward.refl _⟩

theorem fwd_set_of (s : EState) (h : ∀ st, Forward st s) : Fwd (set s : EM Unit) := by
  intro st _ a st' hr
  rw [run_set] at hr
  cases hr
  exact ⟨trivial, h st⟩

/-- closes `True ∧ Forward st <explicit state>` -/
macro "fwd_close" : tactic => `(tactic| ((try dsimp only) <;> (repeat' split) <;> refine ⟨trivial, rfl, rfl, ?_, ?_, ?_, ?_⟩ <;> first
   | exact ⟨[], rfl⟩ | exact ⟨[_], rfl⟩ | exact fun _ => rfl | exact ⟨0, rfl⟩ | (refine ⟨1, ?_⟩; simp [*]) | simp_all))

/-- `Fwd prim` for a primitive written with get/set/modify: unfold, enumerate the successful paths, compare fields -/
macro "fwd_prim" defs:ident* : tactic => `(tactic|
  (intro st _ a st' hr; unfold $defs:ident* at hr; prim_cases hr <;> fwd_close))

theorem fwd_echoLine (l : String) : Fwd (echoLine l) := by
  intro st _ a st' hr
  unfold echoLine at hr
  rw [run_modify] at hr
  cases hr
  refine ⟨trivial, ?_⟩
  by_cases h : st.echoEnabled = true
  · rw [if_pos h]
    have hq : st.echoEnabled = false → (l :: st.echo) = st.echo := by
      intro h'; rw [h] at h'; cases h'
    exact ⟨rfl, rfl, ⟨[l], rfl⟩, hq, ⟨[], rfl⟩, ⟨0, rfl⟩⟩
  · rw [if_neg h]
    exact Forward.refl st

theorem fwd_ensureQubitExists (i : Int) (p : Parse.P) : Fwd (ensureQubitExists i p) := by (fwd_prim ensureQubitExists)
theorem fwd_ensureQubitActive (i : Int) (p : Parse.P) : Fwd (ensureQubitActive i p) := by
  fwd_prim ensureQubitActive ensureQubitExists
theorem fwd_simMeasure (q : Int) : Fwd (simMeasure q) := by (fwd_prim simMeasure nextDraw)
theorem fwd_markMeasured (q : Int) : Fwd (markMeasured q) := by (fwd_prim markMeasured)
theorem fwd_setLastMeasurement (q b : Int) : Fwd (setLastMeasurement q b) := by (fwd_prim setLastMeasurement)

theorem fwd_measureQubit (q : Int) (p : Parse.P) : Fwd (measureQubit q p) := by
  unfold measureQubit
  exact fwd_bind _ _ (fwd_ensureQubitActive q p) (fun _ => fwd_bind _ _ (fwd_simMeasure q) (fun b =>
    fwd_bind _ _ (fwd_markMeasured q) (fun _ => fwd_bind _ _ (fwd_setLastMeasurement q b) (fun _ => fwd_pure _))))

theorem forward_prims : PrimsHoare (fun _ => True) Forward where
  refl := Forward.refl
  trans := Forward.trans
  lookup := fun n => by
    intro st _ a st' hr
    unfold lookup at hr
    prim_cases hr <;> exact ⟨trivial, Forward.refl _⟩
  assignVar := fun n v => by (fwd_prim assignVar)
  declareVar := fun n e => by (fwd_prim declareVar)
  beginScope := by (fwd_prim beginScope)
  endScope := by (fwd_prim endScope)
  enterFrame := by (fwd_prim enterFrame)
  leaveFrame := fun d => by (fwd_prim leaveFrame)
  getHasReturn := by (fwd_prim getHasReturn)
  setHasReturn := fun b => by (fwd_prim setHasReturn)
  clearReturn := by (fwd_prim clearReturn)
  getReturnValue := by (fwd_prim getReturnValue)
  setReturnValue := fun v => by (fwd_prim setReturnValue)
  lookupFnM := fun n => by (fwd_prim lookupFnM)
  echoLine := fwd_echoLine
  allocateTrackedQubit := fun n => by (fwd_prim allocateTrackedQubit simReset nextDraw unmarkMeasured)
  ensureQubitActive := fwd_ensureQubitActive
  resetQubit := fun q p => by (fwd_prim resetQubit ensureQubitExists simReset nextDraw unmarkMeasured)
  simGate := fun op => by (fwd_prim simGate)
  simCx := fun c t => by (fwd_prim simCx)
  measureQubit := fwd_measureQubit

/-- **No program can redefine a function, flip the echo switch, retract a printed line or a recorded outcome, or
put a random draw back**: for every function, argument list and fuel. -/
theorem call_only_moves_forward (fuel : Nat) (fn : FuncDecl) (args : List Value) (st st' : EState) (v : Value)
    (h : (call fuel fn args).run st = .ok (v, st')) : Forward st st' :=
  (hoare_call forward_prims fuel fn args st trivial v st' h).2

/-- the state in which `execute` starts `main` -/
def startState (prog : Program) (draws : List Float) (echoEnabled logOps : Bool) : EState :=
  { sim := Sim.State.init Sim.floatOps logOps, draws := draws, echoEnabled := echoEnabled,
    lookupFn := fun n => prog.functions.find? (·.name == n) }

/-- `--echo=none`: whatever the program does, nothing is echoed -/
theorem execute_quiet (prog : Program) (draws : List Float) (logOps : Bool) (fuel : Nat) :
    (execute prog draws false logOps fuel).echo = [] := by
  unfold execute
  dsimp only
  split
  · rfl
  · split
    · rename_i st hrun
      split at hrun
      · rename_i fn _
        obtain ⟨v, st1, h1, h2⟩ := run_bind_ok hrun
        rw [run_pure] at h2
        cases h2
        have := (call_only_moves_forward fuel fn [] _ _ v h1).quiet rfl
        simp only [this]
        rfl
      · rw [run_pure] at hrun
        cases hrun
        rfl
    · rfl

end BlochVerif.Eval
