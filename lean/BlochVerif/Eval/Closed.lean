import BlochVerif.Eval.Model
/-!
# An induction principle for the evaluator model

`eval`, `exec`, `call` and their helpers touch the evaluator state only through a fixed list of primitives, the
brackets `withScope`/`withFrame`, `pure`, `bind` and `throw`.  Hence any predicate on computations that contains
the primitives and is closed under the combinators holds of the evaluation of every expression, statement and call,
at every fuel: `closed_all`.  The property files instantiate it (state invariants via `Closed.ofInv`, the
frame-independence relation of C09 directly).
-/
namespace BlochVerif.Eval
open BlochVerif BlochVerif.Parse

structure Closed (Q : {α : Type} → EM α → Prop) : Prop where
  pure : ∀ {α : Type} (a : α), Q (pure a : EM α)
  bind : ∀ {α β : Type} (m : EM α) (f : α → EM β), Q m → (∀ a, Q (f a)) → Q (m >>= f)
  throw : ∀ {α : Type} (e : RErr), Q (throw e : EM α)
  lookup : ∀ n, Q (lookup n)
  assignVar : ∀ n v, Q (assignVar n v)
  declareVar : ∀ n e, Q (declareVar n e)
  withScope : ∀ {α : Type} (m : EM α), Q m → Q (withScope m)
  withFrame : ∀ {α : Type} (m : EM α), Q m → Q (withFrame m)
  getHasReturn : Q getHasReturn
  setHasReturn : ∀ b, Q (setHasReturn b)
  clearReturn : Q clearReturn
  getReturnValue : Q getReturnValue
  setReturnValue : ∀ v, Q (setReturnValue v)
  lookupFnM : ∀ n, Q (lookupFnM n)
  echoLine : ∀ l, Q (echoLine l)
  allocateTrackedQubit : ∀ n, Q (allocateTrackedQubit n)
  ensureQubitActive : ∀ i p, Q (ensureQubitActive i p)
  resetQubit : ∀ q p, Q (resetQubit q p)
  simGate : ∀ op, Q (simGate op)
  simCx : ∀ c t, Q (simCx c t)
  measureQubit : ∀ q p, Q (measureQubit q p)

section
variable {Q : {α : Type} → EM α → Prop} (hP : Closed Q)
include hP

theorem closed_rtErr {α : Type} (p : Parse.P) (msg : String) : Q (rtErr p msg : EM α) := hP.throw _

theorem closed_liftE {α : Type} (x : Except RErr α) : Q (liftE x) := by
  cases x with
  | ok a => exact hP.pure a
  | error e => exact hP.throw e

set_option hygiene false in
/-- one step of the structural decomposition of a computation built from the primitives -/
macro "em_step" : tactic => `(tactic| first
  | exact Closed.pure hP _
  | exact Closed.throw hP _
  | exact closed_rtErr hP _ _
  | exact closed_liftE hP _
  | exact Closed.lookup hP _
  | exact Closed.assignVar hP _ _
  | exact Closed.declareVar hP _ _
  | exact Closed.getHasReturn hP
  | exact Closed.setHasReturn hP _
  | exact Closed.clearReturn hP
  | exact Closed.getReturnValue hP
  | exact Closed.setReturnValue hP _
  | exact Closed.lookupFnM hP _
  | exact Closed.echoLine hP _
  | exact Closed.allocateTrackedQubit hP _
  | exact Closed.ensureQubitActive hP _ _
  | exact Closed.resetQubit hP _ _
  | exact Closed.simGate hP _
  | exact Closed.simCx hP _ _
  | exact Closed.measureQubit hP _ _
  | apply Closed.withScope hP
  | apply Closed.withFrame hP
  | apply Closed.bind hP
  | intro _
  | split)

theorem closed_declareParams : ∀ l, Q (declareParams l)
  | [] => hP.pure _
  | (prm, a) :: rest => by
    unfold declareParams
    exact hP.bind _ _ (hP.declareVar _ _) (fun _ => closed_declareParams rest)

theorem closed_applyBuiltin (name : String) (argv : List Value) (p : Parse.P) : Q (applyBuiltin name argv p) := by
  unfold applyBuiltin
  dsimp only
  repeat' em_step

theorem closed_allocArray (name : String) : ∀ n acc, Q (allocArray name n acc)
  | 0, acc => hP.pure _
  | n + 1, acc => by
    unfold allocArray
    exact hP.bind _ _ (hP.allocateTrackedQubit _) (fun q => closed_allocArray name n _)

theorem closed_measureAll (p : Parse.P) : ∀ qs, Q (measureAll p qs)
  | [] => hP.pure _
  | q :: rest => by
    unfold measureAll
    exact hP.bind _ _ (hP.measureQubit _ _) (fun _ => closed_measureAll p rest)

theorem closed_fillDefault (name : String) (v : Value) (n : Nat) : Q (fillDefault name v n) := by
  unfold fillDefault
  split <;> first
    | exact hP.pure _
    | exact hP.bind _ _ (closed_allocArray hP name n []) (fun _ => hP.pure _)

theorem closed_declDefault (ev : Expr → EM Value) (hev : ∀ e, Q (ev e)) (name : String) (ty : Ty) (noInit : Bool)
    (p : Parse.P) : Q (declDefault ev name ty noInit p) := by
  unfold declDefault
  dsimp only
  repeat' first
    | exact hev _
    | exact closed_fillDefault hP _ _ _
    | em_step

theorem closed_declInit (ev : Expr → EM Value) (hev : ∀ e, Q (ev e))
    (evTyped : String → List Expr → Value → EM Value) (hty : ∀ a b c, Q (evTyped a b c))
    (ty : Ty) (init : Option Expr) (arraySize : Int) (v0 : Value) (p : Parse.P) :
    Q (declInit ev evTyped ty init arraySize v0 p) := by
  unfold declInit
  repeat' first
    | exact hev _
    | exact hty _ _ _
    | em_step

/-- **Induction principle.**  A predicate that contains the primitives and is closed under `pure`, `bind`, `throw`
and the two brackets holds of everything the evaluator does. -/
theorem closed_all : ∀ fuel : Nat,
    (∀ e, Q (eval fuel e)) ∧
    (∀ first rest acc, Q (evalUntypedRest fuel first rest acc)) ∧
    (∀ args, Q (evalArgs fuel args)) ∧
    (∀ elem els acc, Q (evalTypedElems fuel elem els acc)) ∧
    (∀ fn args, Q (call fuel fn args)) ∧
    (∀ stmts, Q (execSeq fuel stmts)) ∧
    (∀ c inc body, Q (forLoop fuel c inc body)) ∧
    (∀ c body, Q (whileLoop fuel c body)) ∧
    (∀ s, Q (exec fuel s)) := by
  intro fuel
  induction fuel with
  | zero =>
    refine ⟨?_, ?_, ?_, ?_, ?_, ?_, ?_, ?_, ?_⟩ <;> intros
    · unfold eval; exact hP.throw _
    · unfold evalUntypedRest; exact hP.throw _
    · unfold evalArgs; exact hP.throw _
    · unfold evalTypedElems; exact hP.throw _
    · unfold call; exact hP.throw _
    · unfold execSeq; exact hP.throw _
    · unfold forLoop; exact hP.throw _
    · unfold whileLoop; exact hP.throw _
    · unfold exec; exact hP.throw _
  | succ fuel ih =>
    obtain ⟨ihEval, ihRest, ihArgs, ihTyped, ihCall, ihSeq, ihFor, ihWhile, ihExec⟩ := ih
    refine ⟨?_, ?_, ?_, ?_, ?_, ?_, ?_, ?_, ?_⟩
    · intro e
      unfold eval
      repeat' first
        | exact ihEval _ | exact ihRest _ _ _ | exact ihArgs _ | exact ihCall _ _
        | exact closed_applyBuiltin hP _ _ _
        | em_step
    · intro first rest acc
      unfold evalUntypedRest
      repeat' first
        | exact ihEval _ | exact ihRest _ _ _
        | em_step
    · intro args
      unfold evalArgs
      repeat' first
        | exact ihEval _ | exact ihArgs _
        | em_step
    · intro elem els acc
      unfold evalTypedElems
      repeat' first
        | exact ihEval _ | exact ihTyped _ _ _
        | em_step
    · intro fn args
      unfold call
      repeat' first
        | exact ihSeq _ | exact ihExec _
        | exact closed_declareParams hP _
        | em_step
    · intro stmts
      unfold execSeq
      repeat' first
        | exact ihSeq _ | exact ihExec _
        | em_step
    · intro c inc body
      unfold forLoop
      repeat' first
        | exact ihEval _ | exact ihExec _ | exact ihFor _ _ _
        | em_step
    · intro c body
      unfold whileLoop
      repeat' first
        | exact ihEval _ | exact ihExec _ | exact ihWhile _ _
        | em_step
    · intro s
      unfold exec
      repeat' first
        | exact ihEval _ | exact ihExec _ | exact ihSeq _ | exact ihFor _ _ _ | exact ihWhile _ _
        | exact closed_declDefault hP _ ihEval _ _ _ _
        | exact closed_declInit hP _ ihEval _ ihTyped _ _ _ _ _
        | exact closed_measureAll hP _ _
        | em_step

end

end BlochVerif.Eval
