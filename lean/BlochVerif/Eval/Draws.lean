import BlochVerif.Eval.Hoare
/-!
# Every random decision of a run is a recorded outcome, and conversely

The evaluator takes its random numbers from the front of `draws` (the harness forces them; the C++ draws from its
generator) and records every measurement and every reset in `outcomes`.  For every program: the number of draws consumed
by a successful run is exactly the number of outcome records it added — the i-th draw decides the i-th record.  This is
what makes the forced-draw correspondence runs (C02, C04, C18) line up with the implementation's own record.
-/
namespace BlochVerif.Eval
open BlochVerif BlochVerif.Parse

/-- `k` draws were taken from the front and `k` outcome records were added (newest first) -/
def Paired (s s' : EState) : Prop :=
  ∃ k pre, s'.draws = s.draws.drop k ∧ s'.outcomes = pre ++ s.outcomes ∧ pre.length = k

theorem Paired.refl (s : EState) : Paired s s := ⟨0, [], rfl, rfl, rfl⟩

theorem Paired.trans (a b c : EState) (h1 : Paired a b) (h2 : Paired b c) : Paired a c := by
  obtain ⟨k1, p1, d1, o1, l1⟩ := h1
  obtain ⟨k2, p2, d2, o2, l2⟩ := h2
  refine ⟨k1 + k2, p2 ++ p1, by rw [d2, d1, List.drop_drop], by rw [o2, o1, List.append_assoc], ?_⟩
  rw [List.length_append, l1, l2]; omega

abbrev Prd {α : Type} (m : EM α) : Prop := Hoare (fun _ => True) Paired m

/-- closes `True ∧ Paired st <explicit state>`: no draw and no record, or one of each -/
macro "prd_close" : tactic => `(tactic| ((try dsimp only) <;> (repeat' split) <;> first
   | exact ⟨trivial, 0, [], rfl, rfl, rfl⟩
   | (refine ⟨trivial, 1, [_], ?_, rfl, rfl⟩; simp [*])))

macro "prd_prim" defs:ident* : tactic => `(tactic|
  (intro st _ a st' hr; unfold $defs:ident* at hr; prim_cases hr <;> prd_close))

theorem prd_bind {α β : Type} (m : EM α) (f : α → EM β) (hm : Prd m) (hf : ∀ a, Prd (f a)) : Prd (m >>= f) :=
  Hoare.bind Paired.trans m f hm hf
theorem prd_pure {α : Type} (a : α) : Prd (pure a : EM α) := Hoare.pure Paired.refl a

theorem prd_ensureQubitActive (i : Int) (p : Parse.P) : Prd (ensureQubitActive i p) := by
  prd_prim ensureQubitActive ensureQubitExists
theorem prd_simMeasure (q : Int) : Prd (simMeasure q) := by (prd_prim simMeasure nextDraw)
theorem prd_markMeasured (q : Int) : Prd (markMeasured q) := by (prd_prim markMeasured)
theorem prd_setLastMeasurement (q b : Int) : Prd (setLastMeasurement q b) := by (prd_prim setLastMeasurement)

theorem prd_measureQubit (q : Int) (p : Parse.P) : Prd (measureQubit q p) := by
  unfold measureQubit
  exact prd_bind _ _ (prd_ensureQubitActive q p) (fun _ => prd_bind _ _ (prd_simMeasure q) (fun b =>
    prd_bind _ _ (prd_markMeasured q) (fun _ => prd_bind _ _ (prd_setLastMeasurement q b) (fun _ => prd_pure _))))

theorem paired_prims : PrimsHoare (fun _ => True) Paired where
  refl := Paired.refl
  trans := Paired.trans
  lookup := fun n => by (prd_prim lookup)
  assignVar := fun n v => by (prd_prim assignVar)
  declareVar := fun n e => by (prd_prim declareVar)
  beginScope := by (prd_prim beginScope)
  endScope := by (prd_prim endScope)
  enterFrame := by (prd_prim enterFrame)
  leaveFrame := fun d => by (prd_prim leaveFrame)
  getHasReturn := by (prd_prim getHasReturn)
  setHasReturn := fun b => by (prd_prim setHasReturn)
  clearReturn := by (prd_prim clearReturn)
  getReturnValue := by (prd_prim getReturnValue)
  setReturnValue := fun v => by (prd_prim setReturnValue)
  lookupFnM := fun n => by (prd_prim lookupFnM)
  echoLine := fun l => by (prd_prim echoLine)
  allocateTrackedQubit := fun n => by (prd_prim allocateTrackedQubit simReset nextDraw unmarkMeasured)
  ensureQubitActive := prd_ensureQubitActive
  resetQubit := fun q p => by (prd_prim resetQubit ensureQubitExists simReset nextDraw unmarkMeasured)
  simGate := fun op => by (prd_prim simGate)
  simCx := fun c t => by (prd_prim simCx)
  measureQubit := prd_measureQubit

/-- **Draws and outcome records correspond one to one**, for every function, argument list and fuel. -/
theorem call_pairs_draws_with_outcomes (fuel : Nat) (fn : FuncDecl) (args : List Value) (st st' : EState) (v : Value)
    (h : (call fuel fn args).run st = .ok (v, st')) :
    ∃ k pre, st'.draws = st.draws.drop k ∧ st'.outcomes = pre ++ st.outcomes ∧ pre.length = k :=
  (hoare_call paired_prims fuel fn args st trivial v st' h).2

end BlochVerif.Eval
