import BlochVerif.Eval.Closed
/-!
# State invariants and step relations for every program

`Hoare Inv R m`: started in a state satisfying `Inv`, a successful run of `m` ends in a state satisfying `Inv`
and related to the start by `R` (reflexive, transitive).  `Closed.ofHoare` reduces "holds for every expression,
statement and call" to the primitives.
-/
namespace BlochVerif.Eval
open BlochVerif BlochVerif.Parse

theorem run_pure {α : Type} (a : α) (st : EState) : (pure a : EM α).run st = .ok (a, st) := rfl

theorem run_throw {α : Type} (e : RErr) (st : EState) : (throw e : EM α).run st = .error e := rfl

theorem run_bind {α β : Type} (m : EM α) (f : α → EM β) (st : EState) :
    (m >>= f).run st = match m.run st with
      | .ok (a, s) => (f a).run s
      | .error e => .error e := by
  simp only [StateT.run, bind, StateT.bind, Except.bind]
  cases m st with
  | error e => rfl
  | ok r => rfl

theorem run_bind_ok {α β : Type} {m : EM α} {f : α → EM β} {st st'' : EState} {b : β}
    (h : (m >>= f).run st = .ok (b, st'')) :
    ∃ a st', m.run st = .ok (a, st') ∧ (f a).run st' = .ok (b, st'') := by
  rw [run_bind] at h
  cases hm : m.run st with
  | error e => rw [hm] at h; cases h
  | ok r => rw [hm] at h; exact ⟨r.1, r.2, rfl, h⟩

theorem run_modify (f : EState → EState) (st : EState) : (modify f : EM Unit).run st = .ok ((), f st) := rfl

theorem run_get (st : EState) : (get : EM EState).run st = .ok (st, st) := rfl

theorem run_set (s st : EState) : (set s : EM Unit).run st = .ok ((), s) := rfl

theorem run_bind' {α β : Type} (m : EM α) (f : α → EM β) (st : EState) :
    (m >>= f).run st = (m.run st).bind (fun r => (f r.1).run r.2) := by
  rw [run_bind]
  cases m.run st <;> rfl

theorem run_ite {α : Type} (c : Prop) [Decidable c] (m1 m2 : EM α) (st : EState) :
    (if c then m1 else m2).run st = if c then m1.run st else m2.run st := by
  split <;> rfl

theorem ebind_ok {ε α β : Type} (a : α) (f : α → Except ε β) : (Except.ok a : Except ε α).bind f = f a := rfl
theorem ebind_err {ε α β : Type} (e : ε) (f : α → Except ε β) : (Except.error e : Except ε α).bind f = .error e := rfl
theorem run_rtErr {α : Type} (p : Parse.P) (msg : String) (st : EState) :
    (rtErr p msg : EM α).run st = .error (.runtime p.line p.col msg) := rfl
theorem run_simErr {α : Type} (e : Sim.SimErr) (st : EState) :
    (simErr e : EM α).run st = .error (.runtime 0 0 (match e with
      | .outOfRange _ => "qubit index out of range"
      | .measured _ => "cannot operate on measured qubit"
      | .sameOperand _ => "cx requires distinct control and target qubits")) := rfl

/-- normalise `h : m.run st = …` for a computation written with get/set/modify/if -/
macro "run_norm" "at" h:ident : tactic => `(tactic|
  simp only [run_bind', run_get, run_set, run_modify, run_pure, run_throw, run_ite, ebind_ok, ebind_err, run_rtErr,
    run_simErr] at $h:ident)

/-- split `h : prim.run st = .ok (a, st')` into its successful paths, each with the final state spelled out -/
macro "prim_cases" h:ident : tactic => `(tactic|
  repeat' (first | (run_norm at $h:ident) | (split at $h:ident) | (cases $h:ident)))

def Hoare (Inv : EState → Prop) (R : EState → EState → Prop) {α : Type} (m : EM α) : Prop :=
  ∀ st, Inv st → ∀ a st', m.run st = .ok (a, st') → Inv st' ∧ R st st'

/-- what has to be checked by hand: the primitives -/
structure PrimsHoare (Inv : EState → Prop) (R : EState → EState → Prop) : Prop where
  refl : ∀ st, R st st
  trans : ∀ a b c, R a b → R b c → R a c
  lookup : ∀ n, Hoare Inv R (lookup n)
  assignVar : ∀ n v, Hoare Inv R (assignVar n v)
  declareVar : ∀ n e, Hoare Inv R (declareVar n e)
  beginScope : Hoare Inv R beginScope
  endScope : Hoare Inv R endScope
  enterFrame : Hoare Inv R enterFrame
  leaveFrame : ∀ d, Hoare Inv R (leaveFrame d)
  getHasReturn : Hoare Inv R getHasReturn
  setHasReturn : ∀ b, Hoare Inv R (setHasReturn b)
  clearReturn : Hoare Inv R clearReturn
  getReturnValue : Hoare Inv R getReturnValue
  setReturnValue : ∀ v, Hoare Inv R (setReturnValue v)
  lookupFnM : ∀ n, Hoare Inv R (lookupFnM n)
  echoLine : ∀ l, Hoare Inv R (echoLine l)
  allocateTrackedQubit : ∀ n, Hoare Inv R (allocateTrackedQubit n)
  ensureQubitActive : ∀ i p, Hoare Inv R (ensureQubitActive i p)
  resetQubit : ∀ q p, Hoare Inv R (resetQubit q p)
  simGate : ∀ op, Hoare Inv R (simGate op)
  simCx : ∀ c t, Hoare Inv R (simCx c t)
  measureQubit : ∀ q p, Hoare Inv R (measureQubit q p)

section
variable {Inv : EState → Prop} {R : EState → EState → Prop}

theorem Hoare.pure (hr : ∀ st, R st st) {α : Type} (a : α) : Hoare Inv R (pure a : EM α) := by
  intro st hi a' st' h
  rw [run_pure] at h
  cases h
  exact ⟨hi, hr st⟩

theorem Hoare.throw {α : Type} (e : RErr) : Hoare Inv R (throw e : EM α) := by
  intro st _ a' st' h
  rw [run_throw] at h
  cases h

theorem Hoare.bind (ht : ∀ a b c, R a b → R b c → R a c) {α β : Type} (m : EM α) (f : α → EM β)
    (hm : Hoare Inv R m) (hf : ∀ a, Hoare Inv R (f a)) : Hoare Inv R (m >>= f) := by
  intro st hi b st'' h
  obtain ⟨a, st', h1, h2⟩ := run_bind_ok h
  obtain ⟨hi', hr1⟩ := hm st hi a st' h1
  obtain ⟨hi'', hr2⟩ := hf a st' hi' b st'' h2
  exact ⟨hi'', ht _ _ _ hr1 hr2⟩

/-- a state-only observation never changes the state -/
theorem Hoare.ofRead (hr : ∀ st, R st st) {α : Type} (f : EState → α) :
    Hoare Inv R (do return f (← get) : EM α) := by
  intro st hi a st' h
  have : (do return f (← get) : EM α).run st = .ok (f st, st) := rfl
  rw [this] at h
  cases h
  exact ⟨hi, hr st⟩

theorem Closed.ofHoare (h : PrimsHoare Inv R) : Closed (fun {α} (m : EM α) => Hoare Inv R m) where
  pure := fun a => Hoare.pure h.refl a
  bind := fun m f hm hf => Hoare.bind h.trans m f hm hf
  throw := fun e => Hoare.throw e
  lookup := h.lookup
  assignVar := h.assignVar
  declareVar := h.declareVar
  withScope := fun m hm => by
    unfold Eval.withScope
    exact Hoare.bind h.trans _ _ h.beginScope (fun _ => Hoare.bind h.trans _ _ hm (fun r =>
      Hoare.bind h.trans _ _ h.endScope (fun _ => Hoare.pure h.refl r)))
  withFrame := fun m hm => by
    unfold Eval.withFrame
    exact Hoare.bind h.trans _ _ h.enterFrame (fun saved => Hoare.bind h.trans _ _ h.getHasReturn (fun prev =>
      Hoare.bind h.trans _ _ hm (fun r => Hoare.bind h.trans _ _ h.endScope (fun _ =>
        Hoare.bind h.trans _ _ (h.leaveFrame saved) (fun _ => Hoare.bind h.trans _ _ (h.setHasReturn prev)
          (fun _ => Hoare.pure h.refl r))))))
  getHasReturn := h.getHasReturn
  setHasReturn := h.setHasReturn
  clearReturn := h.clearReturn
  getReturnValue := h.getReturnValue
  setReturnValue := h.setReturnValue
  lookupFnM := h.lookupFnM
  echoLine := h.echoLine
  allocateTrackedQubit := h.allocateTrackedQubit
  ensureQubitActive := h.ensureQubitActive
  resetQubit := h.resetQubit
  simGate := h.simGate
  simCx := h.simCx
  measureQubit := h.measureQubit

/-- **Every program preserves what the primitives preserve.** -/
theorem hoare_call (h : PrimsHoare Inv R) (fuel : Nat) (fn : FuncDecl) (args : List Value) :
    Hoare Inv R (call fuel fn args) :=
  (closed_all (Closed.ofHoare h) fuel).2.2.2.2.1 fn args

theorem hoare_exec (h : PrimsHoare Inv R) (fuel : Nat) (s : Stmt) : Hoare Inv R (exec fuel s) :=
  (closed_all (Closed.ofHoare h) fuel).2.2.2.2.2.2.2.2 s

theorem hoare_eval (h : PrimsHoare Inv R) (fuel : Nat) (e : Expr) : Hoare Inv R (eval fuel e) :=
  (closed_all (Closed.ofHoare h) fuel).1 e

end

end BlochVerif.Eval
