import BlochVerif.Util.FloatFmt
/-!
# Runtime values of `runtime_evaluator.hpp` (`struct Value`) and their printing

`Value` is the C++ struct field for field: a discriminant plus *all* payload fields, because the
evaluator sometimes reads a field that does not belong to the tag (e.g. `-r.intValue` for any
non-float, non-long operand).  `int` fields are kept as `Int` wrapped to 32 bits, `long` to 64.
Strings are sequences of bytes held as `Char`s with code points 0–255.
-/
namespace BlochVerif.Eval

inductive VT where
  | Int | Long | Float | Bit | Boolean | String | Char | Qubit
  | IntArray | LongArray | FloatArray | BitArray | BooleanArray | StringArray | CharArray | QubitArray
  | Object | ObjectArray | ClassRef | Void
deriving Repr, DecidableEq, Inhabited

structure Value where
  type : VT := .Void
  intValue : Int := 0
  longValue : Int := 0
  floatValue : Float := 0.0
  bitValue : Int := 0
  boolValue : Bool := false
  stringValue : String := ""
  charValue : Nat := 0
  qubit : Int := -1
  intArray : List Int := []
  longArray : List Int := []
  floatArray : List Float := []
  bitArray : List Int := []
  boolArray : List Bool := []
  stringArray : List String := []
  charArray : List Nat := []
  qubitArray : List Int := []
  objectValue : Option Nat := none
  className : String := ""
deriving Inhabited

/-- two's-complement wrap to 32 bits (`static_cast<int>` of an `int64_t`, as GCC does it) -/
def wrap32 (x : Int) : Int :=
  let m := x % 4294967296
  if m ≥ 2147483648 then m - 4294967296 else m

/-- wrap to 64 bits (signed overflow wraps on this target) -/
def wrap64 (x : Int) : Int :=
  let m := x % 18446744073709551616
  if m ≥ 9223372036854775808 then m - 18446744073709551616 else m

def mkInt (x : Int) : Value := { type := .Int, intValue := x }
def mkLong (x : Int) : Value := { type := .Long, longValue := x }
def mkFloat (x : Float) : Value := { type := .Float, floatValue := x }
def mkBit (x : Int) : Value := { type := .Bit, bitValue := x }
def mkBool (b : Bool) : Value := { type := .Boolean, boolValue := b }
def mkString (s : String) : Value := { type := .String, stringValue := s }

def charStr (c : Nat) : String := String.ofList [Char.ofNat c]

/-- `static_cast<double>` of an integer -/
def intToFloat (x : Int) : Float := if x ≥ 0 then Float.ofNat x.toNat else -(Float.ofNat x.natAbs)

/-- `static_cast<int64_t>(double)`: truncation toward zero; out-of-range and NaN give `INT64_MIN`
    on x86-64 (`cvttsd2si`) -/
def floatToInt64 (x : Float) : Int :=
  if x.isNaN || x.isInf then -9223372036854775808
  else
    let t := if x < 0.0 then -((-x).floor) else x.floor
    if t ≥ 9223372036854775808.0 || t < -9223372036854775808.0 then -9223372036854775808
    else if t < 0.0 then -((-t).toUInt64.toNat : Int) else (t.toUInt64.toNat : Int)

/-- `static_cast<int>(double)`: `cvttsd2si` 32-bit: out of range gives `INT_MIN` -/
def floatToInt32 (x : Float) : Int :=
  if x.isNaN || x.isInf then -2147483648
  else
    let t := if x < 0.0 then -((-x).floor) else x.floor
    if t ≥ 2147483648.0 || t < -2147483648.0 then -2147483648
    else if t < 0.0 then -((-t).toUInt64.toNat : Int) else (t.toUInt64.toNat : Int)

def fmtFloatValue (x : Float) : String :=
  if x.isFinite && x.floor == x then fmtFixed x 1 else fmtG6 x

def joinWith (sep : String) (l : List String) : String := sep.intercalate l

/-- `valueToString` -/
def valueToString (v : Value) : String :=
  match v.type with
  | .String => v.stringValue
  | .Char => "'" ++ charStr v.charValue ++ "'"
  | .Float => fmtFloatValue v.floatValue
  | .Bit => toString v.bitValue
  | .Boolean => if v.boolValue then "true" else "false"
  | .Int => toString v.intValue
  | .Long => toString v.longValue
  | .BitArray => "{" ++ joinWith ", " (v.bitArray.map toString) ++ "}"
  | .BooleanArray => "{" ++ joinWith ", " (v.boolArray.map (fun b => if b then "true" else "false")) ++ "}"
  | .IntArray => "{" ++ joinWith ", " (v.intArray.map toString) ++ "}"
  | .LongArray => "{" ++ joinWith ", " (v.longArray.map toString) ++ "}"
  | .FloatArray => "{" ++ joinWith ", " (v.floatArray.map fmtG6) ++ "}"
  | .StringArray => "{" ++ joinWith ", " v.stringArray ++ "}"
  | .CharArray => "{" ++ joinWith ", " (v.charArray.map (fun c => "'" ++ charStr c ++ "'")) ++ "}"
  | .Object => if v.objectValue.isNone then "null" else "<" ++ v.className ++ " object>"
  | .ClassRef => "<class " ++ v.className ++ ">"
  | _ => ""

/-! ### literals -/

/-- `std::stoi` of the leading digits: `none` = `std::out_of_range` -/
def stoiPrefix (s : String) : Option Int :=
  let ds := s.toList.takeWhile Char.isDigit
  match (String.ofList ds).toNat? with
  | some n => if n ≤ 2147483647 then some n else none
  | none => none

def stollPrefix (s : String) : Option Int :=
  let ds := s.toList.takeWhile Char.isDigit
  match (String.ofList ds).toNat? with
  | some n => if n ≤ 9223372036854775807 then some n else none
  | none => none

/-- correctly rounded decimal → binary32, widened to double; `none` = `std::out_of_range`
    (overflow, or an inexact subnormal/zero result, for which glibc sets `ERANGE`) -/
def parseFloat32 (num den : Nat) : Option Float :=
  if num == 0 then some 0.0
  else
    -- e with 2^23 ≤ num/(den·2^e) < 2^24
    let l : Int := (Nat.log2 num : Int) - (Nat.log2 den : Int)
    let scaled (e : Int) : Nat × Nat := if e ≥ 0 then (num, den * 2 ^ e.toNat) else (num * 2 ^ (-e).toNat, den)
    let fits (e : Int) : Bool := let (n, d) := scaled e; decide (d * 2 ^ 23 ≤ n) && decide (n < d * 2 ^ 24)
    let e0 := l - 23
    let e := if fits e0 then e0 else if fits (e0 - 1) then e0 - 1 else e0 + 1
    let e := if e < -149 then -149 else e
    let (n, d) := scaled e
    let m := divRoundHalfEven n d
    let (m, e) := if m == 2 ^ 24 then (2 ^ 23, e + 1) else (m, e)
    if e + 23 > 127 then none
    else if m < 2 ^ 23 then
      -- subnormal or zero: ERANGE unless exact
      if m * d == n then some (Float.scaleB (Float.ofNat m) e) else none
    else some (Float.scaleB (Float.ofNat m) e)

/-- `std::stof` of a float literal's text (`digits [ '.' digits ] 'f'`) -/
def stofLiteral (s : String) : Option Float :=
  let cs := s.toList
  let ip := cs.takeWhile Char.isDigit
  let rest := cs.dropWhile Char.isDigit
  let fp := match rest with
    | '.' :: r => r.takeWhile Char.isDigit
    | _ => []
  match (String.ofList (ip ++ fp)).toNat? with
  | some n => parseFloat32 n (10 ^ fp.length)
  | none => some 0.0

end BlochVerif.Eval
