import BlochVerif.Eval.Hoare
/-!
# The register keeps its shape under every program (C03, whole-evaluator form)

Whatever a program does, the simulator's state vector has exactly `2 ^ n` amplitudes, where `n` is the number of
qubits the simulator has handed out, and `n` never decreases (released qubits are reset and reused, the register
is never shrunk, so no handle a program holds can come to point outside the register).
-/
namespace BlochVerif.Eval
open BlochVerif BlochVerif.Parse BlochVerif.Sim

/-- a loop whose body preserves a predicate preserves it -/
theorem forStep_pres {σ : Type} (Pr : σ → Prop) (stop step : Nat) (body : Nat → σ → σ)
    (hb : ∀ i s, Pr s → Pr (body i s)) : ∀ (k i : Nat) (s : σ), stop - i ≤ k → Pr s → Pr (forStep stop step body i s) := by
  intro k
  induction k with
  | zero =>
    intro i s hk hs
    rw [forStep, dif_neg (by omega)]; exact hs
  | succ k ih =>
    intro i s hk hs
    rw [forStep]
    split
    · rename_i h
      exact ih (i + step) (body i s) (by omega) (hb i s hs)
    · exact hs

theorem forStep_pres' {σ : Type} (Pr : σ → Prop) (stop step : Nat) (body : Nat → σ → σ)
    (hb : ∀ i s, Pr s → Pr (body i s)) (i : Nat) (s : σ) (hs : Pr s) : Pr (forStep stop step body i s) :=
  forStep_pres Pr stop step body hb (stop - i) i s (Nat.le_refl _) hs

set_option linter.unusedSectionVars false

section simFacts
variable {K R : Type} [Inhabited K] [Add K] [Mul K]

theorem applySingle_size (arr : Array K) (q : Nat) (m : Mat2 K) : (applySingle arr q m).size = arr.size := by
  unfold applySingle
  refine forStep_pres' (fun a : Array K => a.size = arr.size) _ _ _ ?_ 0 arr rfl
  intro i s hs
  refine forStep_pres' (fun a : Array K => a.size = arr.size) _ _ _ ?_ 0 s hs
  intro j s hs
  unfold pairUpdate
  simp [hs]

theorem cxLoop_size (arr : Array K) (c t : Nat) : (cxLoop arr c t).size = arr.size := by
  unfold cxLoop
  dsimp only
  refine forStep_pres' (fun a : Array K => a.size = arr.size) _ _ _ ?_ 0 arr rfl
  intro i s hs
  refine forStep_pres' (fun a : Array K => a.size = arr.size) _ _ _ ?_ 0 s hs
  intro j s hs
  refine forStep_pres' (fun a : Array K => a.size = arr.size) _ _ _ ?_ 0 s hs
  intro l s hs
  unfold swapCells
  simp [hs]

theorem collapse_size (o : ROps K R) (arr : Array K) (q : Nat) (res : Bool) (norm : R) :
    (collapse o arr q res norm).size = arr.size := by
  unfold collapse
  refine forStep_pres' (fun a : Array K => a.size = arr.size) _ _ _ ?_ 0 arr rfl
  intro i s hs
  split <;> simp [hs]

theorem swapDown_size (o : ROps K R) (arr : Array K) (q : Nat) : (swapDown o arr q).size = arr.size := by
  unfold swapDown
  refine forStep_pres' (fun a : Array K => a.size = arr.size) _ _ _ ?_ 0 arr rfl
  intro i s hs
  split
  · simp [hs]
  · exact hs

theorem allocate_size (o : ROps K R) (st : State K R) : (allocate o st).1.amps.size = 2 * st.amps.size := by
  unfold allocate
  dsimp only
  refine forStep_pres' (fun a : Array K => a.size = 2 * st.amps.size) _ _ _ ?_ 0 _ (by simp; omega)
  intro i s hs
  simp [hs]

/-- `Keeps a b`: if `a` has `2 ^ n` amplitudes so has `b`, and `b` has at least as many qubits -/
def Keeps (a b : Sim.State K R) : Prop := (a.amps.size = 2 ^ a.n → b.amps.size = 2 ^ b.n) ∧ a.n ≤ b.n

theorem Keeps.refl (a : Sim.State K R) : Keeps a a := ⟨id, Nat.le_refl _⟩

theorem Keeps.trans {a b c : Sim.State K R} (h1 : Keeps a b) (h2 : Keeps b c) : Keeps a c :=
  ⟨fun h => h2.1 (h1.1 h), Nat.le_trans h1.2 h2.2⟩

theorem keeps_of_fields {a b : Sim.State K R} (h1 : b.amps.size = a.amps.size) (h2 : b.n = a.n) : Keeps a b :=
  ⟨fun h => by rw [h1, h2]; exact h, by omega⟩

theorem log_keeps (st : Sim.State K R) (op : QOp R) : Keeps st (st.log op) := by
  unfold State.log
  split
  · exact keeps_of_fields rfl rfl
  · exact Keeps.refl st

theorem gate1_keeps (o : ROps K R) (st s : Sim.State K R) (op : QOp R) (h : gate1 o st op = .ok s) : Keeps st s := by
  unfold gate1 at h
  split at h
  · cases h; exact Keeps.refl st
  · rename_i q m _
    cases he : ensureActive st q with
    | error e => rw [he] at h; cases h
    | ok u =>
      rw [he] at h
      simp only [bind, Except.bind, pure, Except.pure, Except.ok.injEq] at h
      rw [← h]
      exact Keeps.trans (b := { st with amps := applySingle st.amps q m }) (keeps_of_fields (applySingle_size _ _ _) rfl)
        (log_keeps _ op)

theorem cx_keeps (st s : Sim.State K R) (c t : Nat) (h : cx st c t = .ok s) : Keeps st s := by
  unfold cx at h
  cases h1 : ensureActive st c with
  | error e => rw [h1] at h; cases h
  | ok u =>
    rw [h1] at h
    cases h2 : ensureActive st t with
    | error e => simp only [bind, Except.bind] at h; rw [h2] at h; cases h
    | ok u2 =>
      simp only [bind, Except.bind] at h
      rw [h2] at h
      simp only at h
      split at h
      · cases h
      · simp only [pure, Except.pure, Except.ok.injEq] at h
        rw [← h]
        exact Keeps.trans (b := { st with amps := cxLoop st.amps c t }) (keeps_of_fields (cxLoop_size _ _ _) rfl)
          (log_keeps _ _)

theorem measureCore_keeps (o : ROps K R) (st : Sim.State K R) (q : Nat) (r : R) :
    Keeps st (measureCore o st q r).1 := by
  unfold measureCore
  dsimp only
  generalize hA : collapse o st.amps q _ _ = A
  have hs : A.size = st.amps.size := by rw [← hA]; exact collapse_size _ _ _ _ _
  have hX := log_keeps ({ st with amps := A } : Sim.State K R) (.measure q)
  have h0 : Keeps st ({ st with amps := A } : Sim.State K R) := keeps_of_fields hs rfl
  have h1 := Keeps.trans h0 hX
  exact ⟨h1.1, h1.2⟩

theorem measure_keeps (o : ROps K R) (st s : Sim.State K R) (q res : Nat) (r : R)
    (h : Sim.measure o st q r = .ok (s, res)) : Keeps st s := by
  unfold Sim.measure at h
  cases h1 : ensureActive st q with
  | error e => rw [h1] at h; cases h
  | ok u =>
    rw [h1] at h
    simp only [bind, Except.bind, pure, Except.pure, Except.ok.injEq, Prod.mk.injEq] at h
    rw [← h.1]
    exact measureCore_keeps o st q r

theorem resetCore_keeps (o : ROps K R) (st : Sim.State K R) (q : Nat) (r : R) :
    Keeps st (resetCore o st q r).1 := by
  unfold resetCore
  dsimp only
  generalize hA : collapse o st.amps q _ _ = A
  have hs : A.size = st.amps.size := by rw [← hA]; exact collapse_size _ _ _ _ _
  split
  · have h0 : Keeps st ({ st with measured := st.measured.setIfInBounds q false, amps := swapDown o A q } :
        Sim.State K R) := keeps_of_fields (by rw [swapDown_size, hs]) rfl
    exact Keeps.trans h0 (log_keeps _ _)
  · have h0 : Keeps st ({ st with measured := st.measured.setIfInBounds q false, amps := A } :
        Sim.State K R) := keeps_of_fields hs rfl
    exact Keeps.trans h0 (log_keeps _ _)

theorem reset_keeps (o : ROps K R) (st s : Sim.State K R) (q res : Nat) (r : R) (h : reset o st q r = .ok (s, res)) :
    Keeps st s := by
  unfold reset at h
  by_cases hq : q ≥ st.n
  · simp only [hq, if_true, bind, Except.bind, throw, throwThe, MonadExceptOf.throw] at h
    cases h
  · simp only [hq, if_false, bind, Except.bind, pure, Except.pure, Except.ok.injEq, Prod.mk.injEq] at h
    rw [← h.1]
    exact resetCore_keeps o st q r

theorem allocate_keeps (o : ROps K R) (st : Sim.State K R) : Keeps st (allocate o st).1 := by
  refine ⟨fun h => ?_, ?_⟩
  · rw [allocate_size, h]
    show 2 * 2 ^ st.n = 2 ^ (st.n + 1)
    rw [Nat.pow_succ]; omega
  · show st.n ≤ st.n + 1
    omega

end simFacts

/-- the state vector has one amplitude per basis state of the register -/
def Shaped (st : EState) : Prop := st.sim.amps.size = 2 ^ st.sim.n

/-- the register never shrinks -/
def NoShrink (s s' : EState) : Prop := s.sim.n ≤ s'.sim.n

theorem shaped_of_keeps {st st' : EState} (hi : Shaped st) (h : Keeps st.sim st'.sim) :
    Shaped st' ∧ NoShrink st st' := ⟨h.1 hi, h.2⟩

macro "shape_prim" defs:ident* : tactic => `(tactic|
  (intro st hi a st' hr; unfold $defs:ident* at hr; prim_cases hr <;> (try dsimp only) <;> (repeat' split) <;>
    refine shaped_of_keeps hi ?_ <;> first
      | exact Keeps.refl _
      | exact gate1_keeps _ _ _ _ ‹_›
      | exact cx_keeps _ _ _ _ ‹_›
      | exact measure_keeps _ _ _ _ _ _ ‹_›
      | exact reset_keeps _ _ _ _ _ _ ‹_›
      | exact allocate_keeps _ _))

theorem shape_prims : PrimsHoare Shaped NoShrink where
  refl := fun s => Nat.le_refl s.sim.n
  trans := fun _ _ _ h1 h2 => Nat.le_trans h1 h2
  lookup := fun n => by (shape_prim lookup)
  assignVar := fun n v => by (shape_prim assignVar)
  declareVar := fun n e => by (shape_prim declareVar)
  beginScope := by (shape_prim beginScope)
  endScope := by (shape_prim endScope)
  enterFrame := by (shape_prim enterFrame)
  leaveFrame := fun d => by (shape_prim leaveFrame)
  getHasReturn := by (shape_prim getHasReturn)
  setHasReturn := fun b => by (shape_prim setHasReturn)
  clearReturn := by (shape_prim clearReturn)
  getReturnValue := by (shape_prim getReturnValue)
  setReturnValue := fun v => by (shape_prim setReturnValue)
  lookupFnM := fun n => by (shape_prim lookupFnM)
  echoLine := fun l => by (shape_prim echoLine)
  allocateTrackedQubit := fun n => by (shape_prim allocateTrackedQubit simReset nextDraw unmarkMeasured)
  ensureQubitActive := fun i p => by (shape_prim ensureQubitActive ensureQubitExists)
  resetQubit := fun q p => by (shape_prim resetQubit ensureQubitExists simReset nextDraw unmarkMeasured)
  simGate := fun op => by (shape_prim simGate)
  simCx := fun c t => by (shape_prim simCx)
  measureQubit := fun q p => by
    (shape_prim measureQubit ensureQubitActive ensureQubitExists simMeasure nextDraw markMeasured setLastMeasurement)

/-- **Every program leaves a `2 ^ n` state vector and never shrinks the register.** -/
theorem call_keeps_the_register_shaped (fuel : Nat) (fn : FuncDecl) (args : List Value) (st st' : EState) (v : Value)
    (hi : Shaped st) (h : (call fuel fn args).run st = .ok (v, st')) :
    st'.sim.amps.size = 2 ^ st'.sim.n ∧ st.sim.n ≤ st'.sim.n :=
  hoare_call shape_prims fuel fn args st hi v st' h

theorem exec_keeps_the_register_shaped (fuel : Nat) (s : Stmt) (st st' : EState)
    (hi : Shaped st) (h : (exec fuel s).run st = .ok ((), st')) :
    st'.sim.amps.size = 2 ^ st'.sim.n ∧ st.sim.n ≤ st'.sim.n :=
  hoare_exec shape_prims fuel s st hi () st' h

theorem shaped_start (prog : Program) (draws : List Float) (e l : Bool) :
    Shaped { sim := Sim.State.init Sim.floatOps l, draws := draws, echoEnabled := e,
             lookupFn := fun n => prog.functions.find? (·.name == n) } := by
  show (Sim.State.init Sim.floatOps l).amps.size = 2 ^ (Sim.State.init Sim.floatOps l).n
  simp [Sim.State.init]

/-- the register a run hands back — whatever the program, the draws, the switches and the fuel, and whether the run ended
normally or in an error — has `2 ^ n` amplitudes -/
theorem execute_shaped (prog : Program) (draws : List Float) (e l : Bool) (fuel : Nat) :
    (execute prog draws e l fuel).sim.amps.size = 2 ^ (execute prog draws e l fuel).sim.n := by
  have h0 := shaped_start prog draws e l
  unfold execute
  dsimp only
  split
  · exact h0
  · split
    · rename_i st hrun
      split at hrun
      · rename_i fn _
        obtain ⟨v, st1, h1, h2⟩ := run_bind_ok hrun
        rw [run_pure] at h2
        cases h2
        exact (call_keeps_the_register_shaped fuel fn [] _ _ v h0 h1).1
      · rw [run_pure] at hrun
        cases hrun
        exact h0
    · exact h0

end BlochVerif.Eval
