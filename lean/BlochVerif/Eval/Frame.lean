import BlochVerif.Eval.Hoare
/-!
# Frame independence (C09): a computation never reads or writes the scopes below its own frame

`withBelow b st` replaces everything below the current frame (the caller's scopes, the caller's caller's, …) by `b`.
`FrameInd m`: running `m` after that replacement gives the same result, the same error, and the same final state up
to the same replacement; and `m` leaves the part below the frame exactly as it was.  The primitives that do not
mention `env`/`frameDepth` are handled uniformly (`EnvObl`); `lookup`, `assignVar`, `declareVar` and the two brackets
by hand.  `closed_all` then gives it for every expression, statement and call.
-/
namespace BlochVerif.Eval
open BlochVerif BlochVerif.Parse BlochVerif.Sim

def reEnv (e : List Scope) (fd : Nat) (st : EState) : EState := { st with env := e, frameDepth := fd }

/-- the computation neither reads nor writes `env`/`frameDepth` -/
def EnvObl {α : Type} (m : EM α) : Prop :=
  ∀ st e fd, m.run (reEnv e fd st) = (m.run st).map (fun r => (r.1, reEnv e fd r.2))

theorem emap_ok {ε α β : Type} (a : α) (f : α → β) : (Except.ok a : Except ε α).map f = .ok (f a) := rfl
theorem emap_err {ε α β : Type} (e : ε) (f : α → β) : (Except.error e : Except ε α).map f = .error e := rfl

macro "envobl" defs:ident* : tactic => `(tactic|
  (intro st e fd; unfold $defs:ident*;
   simp only [run_bind', run_get, run_set, run_modify, run_pure, run_throw, run_ite, ebind_ok, ebind_err, run_rtErr,
     run_simErr, emap_ok, emap_err, reEnv];
   repeat' (first | rfl | split | (simp only [run_bind', run_get, run_set, run_modify, run_pure, run_throw, run_ite,
     ebind_ok, ebind_err, run_rtErr, run_simErr, emap_ok, emap_err]))))

theorem EnvObl.keeps {α : Type} {m : EM α} (h : EnvObl m) {st st' : EState} {a : α} (hr : m.run st = .ok (a, st')) :
    st'.env = st.env ∧ st'.frameDepth = st.frameDepth := by
  have h1 := h st st.env st.frameDepth
  have e1 : reEnv st.env st.frameDepth st = st := rfl
  rw [e1, hr, emap_ok] at h1
  have h2 : st' = reEnv st.env st.frameDepth st' := by
    have := Except.ok.inj h1
    exact (Prod.mk.inj this).2
  constructor
  · rw [h2]; rfl
  · rw [h2]; rfl

def withBelow (b : List Scope) (st : EState) : EState := { st with env := st.env.take st.frameDepth ++ b }

/-- inside a frame: at least one scope belongs to it, and it does not claim more scopes than there are -/
def FWF (st : EState) : Prop := 1 ≤ st.frameDepth ∧ st.frameDepth ≤ st.env.length

def FrameInd {α : Type} (m : EM α) : Prop :=
  ∀ st, FWF st →
    (∀ b, m.run (withBelow b st) = (m.run st).map (fun r => (r.1, withBelow b r.2))) ∧
    (∀ a st', m.run st = .ok (a, st') →
      FWF st' ∧ st'.env.drop st'.frameDepth = st.env.drop st.frameDepth ∧ st'.frameDepth = st.frameDepth)

theorem withBelow_eq_reEnv (b : List Scope) (st : EState) :
    withBelow b st = reEnv (st.env.take st.frameDepth ++ b) st.frameDepth st := rfl

theorem FrameInd.ofEnvObl {α : Type} {m : EM α} (h : EnvObl m) : FrameInd m := by
  intro st hw
  constructor
  · intro b
    rw [withBelow_eq_reEnv, h]
    cases hr : m.run st with
    | error e => rfl
    | ok r =>
      obtain ⟨a, st'⟩ := r
      obtain ⟨he, hf⟩ := h.keeps hr
      simp only [emap_ok]
      rw [withBelow_eq_reEnv, he, hf]
  · intro a st' hr
    obtain ⟨he, hf⟩ := h.keeps hr
    unfold FWF
    rw [he, hf]
    exact ⟨hw, rfl, rfl⟩

theorem FrameInd.pure {α : Type} (a : α) : FrameInd (pure a : EM α) := by
  intro st hw
  refine ⟨fun b => rfl, ?_⟩
  intro a' st' hr
  rw [run_pure] at hr
  cases hr
  exact ⟨hw, rfl, rfl⟩

theorem FrameInd.throw {α : Type} (e : RErr) : FrameInd (throw e : EM α) := by
  intro st hw
  refine ⟨fun b => rfl, ?_⟩
  intro a' st' hr
  rw [run_throw] at hr
  cases hr

theorem FrameInd.bind {α β : Type} (m : EM α) (f : α → EM β) (hm : FrameInd m) (hf : ∀ a, FrameInd (f a)) :
    FrameInd (m >>= f) := by
  intro st hw
  obtain ⟨hm1, hm2⟩ := hm st hw
  constructor
  · intro b
    rw [run_bind', run_bind', hm1 b]
    cases hr : m.run st with
    | error e => rfl
    | ok r =>
      obtain ⟨a, s1⟩ := r
      simp only [emap_ok, ebind_ok]
      obtain ⟨hw1, _, _⟩ := hm2 a s1 hr
      exact ((hf a) s1 hw1).1 b
  · intro b st'' hr
    obtain ⟨a, s1, h1, h2⟩ := run_bind_ok hr
    obtain ⟨hw1, hb1, hd1⟩ := hm2 a s1 h1
    obtain ⟨hw2, hb2, hd2⟩ := ((hf a) s1 hw1).2 b st'' h2
    exact ⟨hw2, hb2.trans hb1, hd2.trans hd1⟩

/-! ### the environment primitives -/

theorem take_top (st : EState) (hw : FWF st) (b : List Scope) :
    (st.env.take st.frameDepth ++ b).take st.frameDepth = st.env.take st.frameDepth := by
  have hl : (st.env.take st.frameDepth).length = st.frameDepth := by
    rw [List.length_take]; exact Nat.min_eq_left hw.2
  rw [List.take_append_of_le_length (by omega), List.take_of_length_le (by omega)]

theorem drop_top (st : EState) (hw : FWF st) (b : List Scope) :
    (st.env.take st.frameDepth ++ b).drop st.frameDepth = b := by
  have hl : (st.env.take st.frameDepth).length = st.frameDepth := by
    rw [List.length_take]; exact Nat.min_eq_left hw.2
  rw [List.drop_append_of_le_length (by omega), List.drop_of_length_le (by omega), List.nil_append]

def frameLookup (frame : List Scope) (name : String) : Value :=
  match frame.findSome? (fun sc => (sc.find? (·.1 == name)).map (·.2.value)) with
  | some v => v
  | none => {}

theorem lookup_run (st : EState) (name : String) :
    (lookup name).run st = .ok (frameLookup (st.env.take st.frameDepth) name, st) := by
  unfold lookup frameLookup
  simp only [run_bind', run_get, ebind_ok]
  cases (List.take st.frameDepth st.env).findSome? (fun sc => (sc.find? (·.1 == name)).map (·.2.value)) <;> rfl

theorem FrameInd.lookup (n : String) : FrameInd (lookup n) := by
  intro st hw
  constructor
  · intro b
    rw [lookup_run, lookup_run, emap_ok]
    have : (withBelow b st).env.take (withBelow b st).frameDepth = st.env.take st.frameDepth := take_top st hw b
    rw [this]
  · intro a st' hr
    rw [lookup_run] at hr
    cases hr
    exact ⟨hw, rfl, rfl⟩

theorem go_length (name : String) (v : Value) :
    ∀ (l l' : List Scope), assignVar.go name v l = some l' → l'.length = l.length := by
  intro l
  induction l with
  | nil => intro l' h; simp [assignVar.go] at h
  | cons sc rest ih =>
    intro l' h
    simp only [assignVar.go] at h
    split at h
    · cases h; simp
    · cases hg : assignVar.go name v rest with
      | none => simp [hg] at h
      | some r => simp [hg] at h; subst h; simp [ih r hg]

theorem declareVar_run (st : EState) (n : String) (e : VarEntry) :
    (declareVar n e).run st = .ok ((), match st.env with
      | top :: rest => { st with env := top.set n e :: rest }
      | [] => { st with env := [[(n, e)]] }) := rfl

theorem assignVar_run (st : EState) (n : String) (v : Value) :
    (assignVar n v).run st = match assignVar.go n v (st.env.take st.frameDepth) with
      | some env' => .ok ((), { st with env := env' ++ st.env.drop st.frameDepth })
      | none => (declareVar n { value := v, tracked := false, initialized := true }).run st := by
  unfold assignVar
  simp only [run_bind', run_get, ebind_ok]
  cases assignVar.go n v (List.take st.frameDepth st.env) <;> rfl

/-- a non-empty frame: the top scope of the environment belongs to it -/
theorem env_cons_of_fwf (st : EState) (hw : FWF st) :
    ∃ top rest, st.env = top :: rest ∧ st.env.take st.frameDepth = top :: rest.take (st.frameDepth - 1) ∧
      st.env.drop st.frameDepth = rest.drop (st.frameDepth - 1) := by
  obtain ⟨h1, h2⟩ := hw
  cases he : st.env with
  | nil => rw [he] at h2; simp at h2; omega
  | cons top rest =>
    refine ⟨top, rest, rfl, ?_, ?_⟩
    · obtain ⟨k, hk⟩ : ∃ k, st.frameDepth = k + 1 := ⟨st.frameDepth - 1, by omega⟩
      rw [hk]; simp
    · obtain ⟨k, hk⟩ : ∃ k, st.frameDepth = k + 1 := ⟨st.frameDepth - 1, by omega⟩
      rw [hk]; simp

theorem FrameInd.declareVar (n : String) (e : VarEntry) : FrameInd (declareVar n e) := by
  intro st hw
  obtain ⟨top, rest, he, ht, hd⟩ := env_cons_of_fwf st hw
  have hlen : st.frameDepth - 1 ≤ rest.length := by
    have := hw.2; rw [he] at this; simp at this; omega
  constructor
  · intro b
    rw [declareVar_run, declareVar_run, emap_ok]
    have e1 : (withBelow b st).env = top :: (rest.take (st.frameDepth - 1) ++ b) := by
      show st.env.take st.frameDepth ++ b = _
      rw [ht]; rfl
    rw [e1, he]
    simp only
    congr 1
    refine Prod.ext rfl ?_
    show _ = withBelow b { st with env := top.set n e :: rest }
    unfold withBelow
    simp only
    have : (top.set n e :: rest).take st.frameDepth = top.set n e :: rest.take (st.frameDepth - 1) := by
      obtain ⟨k, hk⟩ : ∃ k, st.frameDepth = k + 1 := ⟨st.frameDepth - 1, by have := hw.1; omega⟩
      rw [hk]; simp
    rw [this]
    rfl
  · intro a st' hr
    rw [declareVar_run, he] at hr
    cases hr
    refine ⟨?_, ?_, rfl⟩
    · have := hw; unfold FWF at this ⊢; rw [he] at this; simpa using this
    · show (top.set n e :: rest).drop st.frameDepth = st.env.drop st.frameDepth
      rw [he]
      obtain ⟨k, hk⟩ : ∃ k, st.frameDepth = k + 1 := ⟨st.frameDepth - 1, by have := hw.1; omega⟩
      rw [hk]; simp

theorem FrameInd.assignVar (n : String) (v : Value) : FrameInd (assignVar n v) := by
  intro st hw
  have htop : ∀ b, (withBelow b st).env.take (withBelow b st).frameDepth = st.env.take st.frameDepth := by
    intro b; exact take_top st hw b
  cases hg : assignVar.go n v (st.env.take st.frameDepth) with
  | some env' =>
    have hl := go_length n v _ _ hg
    have hl' : env'.length = st.frameDepth := by
      rw [hl, List.length_take]; exact Nat.min_eq_left hw.2
    constructor
    · intro b
      rw [assignVar_run, assignVar_run, htop b, hg, emap_ok]
      simp only
      congr 1
      refine Prod.ext rfl ?_
      have hd : (withBelow b st).env.drop (withBelow b st).frameDepth = b := drop_top st hw b
      rw [hd]
      show _ = withBelow b { st with env := env' ++ st.env.drop st.frameDepth }
      unfold withBelow
      simp only
      rw [List.take_append_of_le_length (by omega), List.take_of_length_le (by omega)]
    · intro a st' hr
      rw [assignVar_run, hg] at hr
      cases hr
      refine ⟨?_, ?_, rfl⟩
      · unfold FWF
        simp only [List.length_append, List.length_drop]
        have := hw.1; have := hw.2
        omega
      · show (env' ++ st.env.drop st.frameDepth).drop st.frameDepth = _
        rw [List.drop_append_of_le_length (by omega), List.drop_of_length_le (by omega), List.nil_append]
  | none =>
    have hdv := FrameInd.declareVar n { value := v, tracked := false, initialized := true } st hw
    constructor
    · intro b
      rw [assignVar_run, assignVar_run, htop b, hg]
      exact hdv.1 b
    · intro a st' hr
      rw [assignVar_run, hg] at hr
      exact hdv.2 a st' hr

/-! ### the brackets -/

def beginS (st : EState) : EState := { st with env := [] :: st.env, frameDepth := st.frameDepth + 1 }

/-- the state function of `endScope` -/
def endS (st : EState) : EState :=
  match st.env with
  | [] => st
  | top :: rest =>
    let tr := top.foldl (fun tr kv =>
      if !kv.2.tracked then tr else
      match trackedOutcome st.lastMeasurement kv.2.value with
      | some (pre, outcome) => bump tr (pre ++ kv.1) outcome
      | none => tr) st.tracked
    { st with env := rest, tracked := tr, frameDepth := st.frameDepth - 1 }

theorem beginScope_eq : beginScope = (modify beginS : EM Unit) := rfl
theorem endScope_eq : endScope = (modify endS : EM Unit) := rfl

theorem withScope_run {α : Type} (m : EM α) (st : EState) :
    (withScope m).run st = (m.run (beginS st)).bind (fun r => .ok (r.1, endS r.2)) := by
  unfold withScope
  rw [beginScope_eq, endScope_eq]
  simp only [run_bind', run_modify, ebind_ok]
  cases m.run (beginS st) with
  | error e => rfl
  | ok r => rfl

theorem fwf_beginS (st : EState) (hw : FWF st) : FWF (beginS st) := by
  unfold FWF beginS at *
  simp only [List.length_cons]
  omega

theorem withBelow_beginS (b : List Scope) (st : EState) : withBelow b (beginS st) = beginS (withBelow b st) := by
  unfold withBelow beginS
  simp only [List.take_succ_cons, List.cons_append]

/-- popping the frame's top scope commutes with replacing what is below the frame, as long as the popped scope is
not the frame's last one (or the frame is being left altogether, `withFrame`) -/
theorem endS_cons (st : EState) (top : Scope) (rest : List Scope) (he : st.env = top :: rest) :
    ∃ tr, endS st = { st with env := rest, tracked := tr, frameDepth := st.frameDepth - 1 } ∧
      ∀ b, endS { st with env := top :: b } = { st with env := b, tracked := tr, frameDepth := st.frameDepth - 1 } := by
  unfold endS
  rw [he]
  exact ⟨_, rfl, fun b => rfl⟩

theorem FrameInd.withScope {α : Type} (m : EM α) (hm : FrameInd m) : FrameInd (withScope m) := by
  intro st hw
  obtain ⟨hm1, hm2⟩ := hm (beginS st) (fwf_beginS st hw)
  -- what the body's final state looks like
  have key : ∀ a s', m.run (beginS st) = .ok (a, s') →
      (∀ b, endS (withBelow b s') = withBelow b (endS s')) ∧ FWF (endS s') ∧
      (endS s').env.drop (endS s').frameDepth = st.env.drop st.frameDepth ∧ (endS s').frameDepth = st.frameDepth := by
    intro a s' hr
    obtain ⟨hw', hb', hd'⟩ := hm2 a s' hr
    have hfd : s'.frameDepth = st.frameDepth + 1 := hd'
    obtain ⟨top, rest, he, ht, hdr⟩ := env_cons_of_fwf s' hw'
    obtain ⟨tr, h1, h2⟩ := endS_cons s' top rest he
    have hlen : st.frameDepth ≤ rest.length := by
      have := hw'.2; rw [he, hfd] at this; simpa using this
    have hk : s'.frameDepth - 1 = st.frameDepth := by omega
    refine ⟨?_, ?_, ?_, ?_⟩
    · intro b
      have e1 : withBelow b s' = { s' with env := top :: (rest.take (s'.frameDepth - 1) ++ b) } := by
        unfold withBelow; rw [ht]; rfl
      rw [e1, h2 (rest.take (s'.frameDepth - 1) ++ b), h1]
      unfold withBelow
      simp only
    · rw [h1]; unfold FWF; simp only; have := hw.1; omega
    · rw [h1]
      show rest.drop (s'.frameDepth - 1) = _
      rw [← hdr, hb']
      show ([] :: st.env).drop (st.frameDepth + 1) = _
      simp
    · rw [h1]; exact hk
  constructor
  · intro b
    rw [withScope_run, withScope_run, ← withBelow_beginS, hm1 b]
    cases hr : m.run (beginS st) with
    | error e => rfl
    | ok r =>
      obtain ⟨a, s'⟩ := r
      simp only [emap_ok, ebind_ok]
      rw [(key a s' hr).1 b]
  · intro a st'' hr
    rw [withScope_run] at hr
    cases hr1 : m.run (beginS st) with
    | error e => rw [hr1] at hr; cases hr
    | ok r =>
      obtain ⟨a1, s'⟩ := r
      rw [hr1, ebind_ok] at hr
      cases hr
      exact (key a1 s' hr1).2

def enterS (st : EState) : EState := { st with env := [] :: st.env, frameDepth := 1 }

/-- what `withFrame` does after the body: end the frame's scope, restore the caller's frame depth and return flag -/
def finishS (caller s : EState) : EState :=
  { endS s with frameDepth := caller.frameDepth, hasReturn := caller.hasReturn }

theorem withFrame_run {α : Type} (m : EM α) (st : EState) :
    (withFrame m).run st = (m.run (enterS st)).bind (fun r => .ok (r.1, finishS st r.2)) := by
  unfold withFrame enterFrame getHasReturn leaveFrame setHasReturn
  rw [endScope_eq]
  simp only [run_bind', run_get, run_set, run_modify, run_pure, ebind_ok]
  show (m.run (enterS st)).bind _ = _
  cases m.run (enterS st) with
  | error e => rfl
  | ok r => rfl

theorem fwf_enterS (st : EState) : FWF (enterS st) := by
  unfold FWF enterS
  simp only [List.length_cons]
  omega

theorem enterS_withBelow (b : List Scope) (st : EState) :
    enterS (withBelow b st) = withBelow (st.env.take st.frameDepth ++ b) (enterS st) := by
  unfold withBelow enterS
  simp

theorem FrameInd.withFrame {α : Type} (m : EM α) (hm : FrameInd m) : FrameInd (withFrame m) := by
  intro st hw
  obtain ⟨hm1, hm2⟩ := hm (enterS st) (fwf_enterS st)
  have key : ∀ a s', m.run (enterS st) = .ok (a, s') →
      (∀ b, finishS (withBelow b st) (withBelow (st.env.take st.frameDepth ++ b) s') = withBelow b (finishS st s')) ∧
      (finishS st s').env = st.env ∧ (finishS st s').frameDepth = st.frameDepth := by
    intro a s' hr
    obtain ⟨hw', hb', hd'⟩ := hm2 a s' hr
    have hfd : s'.frameDepth = 1 := hd'
    obtain ⟨top, rest, he, ht, hdr⟩ := env_cons_of_fwf s' hw'
    have hrest : rest = st.env := by
      have : rest.drop (s'.frameDepth - 1) = ([] :: st.env).drop 1 := by rw [← hdr, hb']; rfl
      rw [hfd] at this
      simpa using this
    obtain ⟨tr, h1, h2⟩ := endS_cons s' top rest he
    refine ⟨?_, ?_, ?_⟩
    · intro b
      have e1 : withBelow (st.env.take st.frameDepth ++ b) s' = { s' with env := top :: (st.env.take st.frameDepth ++ b) } := by
        unfold withBelow; rw [ht, hfd]; simp
      unfold finishS
      rw [e1, h2 (st.env.take st.frameDepth ++ b), h1]
      unfold withBelow
      simp only [hrest]
    · unfold finishS; rw [h1]; exact hrest
    · rfl
  constructor
  · intro b
    rw [withFrame_run, withFrame_run, enterS_withBelow, hm1 (st.env.take st.frameDepth ++ b)]
    cases hr : m.run (enterS st) with
    | error e => rfl
    | ok r =>
      obtain ⟨a, s'⟩ := r
      simp only [emap_ok, ebind_ok]
      rw [(key a s' hr).1 b]
  · intro a st'' hr
    rw [withFrame_run] at hr
    cases hr1 : m.run (enterS st) with
    | error e => rw [hr1] at hr; cases hr
    | ok r =>
      obtain ⟨a1, s'⟩ := r
      rw [hr1, ebind_ok] at hr
      cases hr
      obtain ⟨_, he, hf⟩ := key a1 s' hr1
      unfold FWF
      rw [he, hf]
      exact ⟨hw, rfl, rfl⟩

/-! ### everything else does not mention the environment -/

theorem eo_getHasReturn : EnvObl getHasReturn := by envobl getHasReturn
theorem eo_setHasReturn (b : Bool) : EnvObl (setHasReturn b) := by envobl setHasReturn
theorem eo_clearReturn : EnvObl clearReturn := by envobl clearReturn
theorem eo_getReturnValue : EnvObl getReturnValue := by envobl getReturnValue
theorem eo_setReturnValue (v : Value) : EnvObl (setReturnValue v) := by envobl setReturnValue
theorem eo_lookupFnM (n : String) : EnvObl (lookupFnM n) := by envobl lookupFnM
theorem eo_echoLine (l : String) : EnvObl (echoLine l) := by envobl echoLine
theorem eo_allocateTrackedQubit (n : String) : EnvObl (allocateTrackedQubit n) := by
  envobl allocateTrackedQubit simReset nextDraw unmarkMeasured
theorem eo_ensureQubitExists (i : Int) (p : Parse.P) : EnvObl (ensureQubitExists i p) := by envobl ensureQubitExists
theorem eo_ensureQubitActive (i : Int) (p : Parse.P) : EnvObl (ensureQubitActive i p) := by
  envobl ensureQubitActive ensureQubitExists
theorem eo_resetQubit (q : Int) (p : Parse.P) : EnvObl (resetQubit q p) := by
  envobl resetQubit ensureQubitExists simReset nextDraw unmarkMeasured
theorem eo_simGate (op : QOp Float) : EnvObl (simGate op) := by envobl simGate
theorem eo_simCx (c t : Int) : EnvObl (simCx c t) := by envobl simCx
theorem eo_measureQubit (q : Int) (p : Parse.P) : EnvObl (measureQubit q p) := by
  envobl measureQubit ensureQubitActive ensureQubitExists simMeasure nextDraw markMeasured setLastMeasurement

theorem frameInd_closed : Closed (fun {α} (m : EM α) => FrameInd m) where
  pure := FrameInd.pure
  bind := FrameInd.bind
  throw := FrameInd.throw
  lookup := FrameInd.lookup
  assignVar := FrameInd.assignVar
  declareVar := FrameInd.declareVar
  withScope := FrameInd.withScope
  withFrame := FrameInd.withFrame
  getHasReturn := FrameInd.ofEnvObl eo_getHasReturn
  setHasReturn := fun b => FrameInd.ofEnvObl (eo_setHasReturn b)
  clearReturn := FrameInd.ofEnvObl eo_clearReturn
  getReturnValue := FrameInd.ofEnvObl eo_getReturnValue
  setReturnValue := fun v => FrameInd.ofEnvObl (eo_setReturnValue v)
  lookupFnM := fun n => FrameInd.ofEnvObl (eo_lookupFnM n)
  echoLine := fun l => FrameInd.ofEnvObl (eo_echoLine l)
  allocateTrackedQubit := fun n => FrameInd.ofEnvObl (eo_allocateTrackedQubit n)
  ensureQubitActive := fun i p => FrameInd.ofEnvObl (eo_ensureQubitActive i p)
  resetQubit := fun q p => FrameInd.ofEnvObl (eo_resetQubit q p)
  simGate := fun op => FrameInd.ofEnvObl (eo_simGate op)
  simCx := fun c t => FrameInd.ofEnvObl (eo_simCx c t)
  measureQubit := fun q p => FrameInd.ofEnvObl (eo_measureQubit q p)

/-- every expression, statement and call is frame independent -/
theorem frameInd_eval (fuel : Nat) (e : Expr) : FrameInd (eval fuel e) := (closed_all frameInd_closed fuel).1 e
theorem frameInd_exec (fuel : Nat) (s : Stmt) : FrameInd (exec fuel s) := (closed_all frameInd_closed fuel).2.2.2.2.2.2.2.2 s
theorem frameInd_execSeq (fuel : Nat) (ss : List Stmt) : FrameInd (execSeq fuel ss) :=
  (closed_all frameInd_closed fuel).2.2.2.2.2.1 ss
theorem frameInd_call (fuel : Nat) (fn : FuncDecl) (args : List Value) : FrameInd (call fuel fn args) :=
  (closed_all frameInd_closed fuel).2.2.2.2.1 fn args

/-- a call boundary cuts the caller's environment off completely: whatever environment and frame depth the caller
has, the bracketed computation behaves the same and hands the caller's environment back untouched -/
theorem withFrame_any {α : Type} (m : EM α) (hm : FrameInd m) (st : EState) (e' : List Scope) (fd' : Nat) :
    (withFrame m).run (reEnv e' fd' st) = ((withFrame m).run st).map (fun r => (r.1, reEnv e' fd' r.2)) ∧
    ∀ a st', (withFrame m).run st = .ok (a, st') → st'.env = st.env ∧ st'.frameDepth = st.frameDepth := by
  obtain ⟨hm1, hm2⟩ := hm (enterS st) (fwf_enterS st)
  have hent : enterS (reEnv e' fd' st) = withBelow e' (enterS st) := by
    unfold withBelow enterS reEnv; simp
  have key : ∀ a s', m.run (enterS st) = .ok (a, s') →
      finishS (reEnv e' fd' st) (withBelow e' s') = reEnv e' fd' (finishS st s') ∧
      (finishS st s').env = st.env ∧ (finishS st s').frameDepth = st.frameDepth := by
    intro a s' hr
    obtain ⟨hw', hb', hd'⟩ := hm2 a s' hr
    have hfd : s'.frameDepth = 1 := hd'
    obtain ⟨top, rest, he, ht, hdr⟩ := env_cons_of_fwf s' hw'
    have hrest : rest = st.env := by
      have : rest.drop (s'.frameDepth - 1) = ([] :: st.env).drop 1 := by rw [← hdr, hb']; rfl
      rw [hfd] at this
      simpa using this
    obtain ⟨tr, h1, h2⟩ := endS_cons s' top rest he
    refine ⟨?_, ?_, rfl⟩
    · have e1 : withBelow e' s' = { s' with env := top :: e' } := by
        unfold withBelow; rw [ht, hfd]; simp
      unfold finishS
      rw [e1, h2 e', h1]
      rfl
    · unfold finishS; rw [h1]; exact hrest
  constructor
  · rw [withFrame_run, withFrame_run, hent, hm1 e']
    cases hr : m.run (enterS st) with
    | error e => rfl
    | ok r =>
      obtain ⟨a, s'⟩ := r
      simp only [emap_ok, ebind_ok]
      rw [(key a s' hr).1]
  · intro a st'' hr
    rw [withFrame_run] at hr
    cases hr1 : m.run (enterS st) with
    | error e => rw [hr1] at hr; cases hr
    | ok r =>
      obtain ⟨a1, s'⟩ := r
      rw [hr1, ebind_ok] at hr
      cases hr
      exact (key a1 s' hr1).2

/-- **C09 for the whole evaluator.**  A call never sees and never changes its caller's environment. -/
theorem call_cut_off (fuel : Nat) (fn : FuncDecl) (args : List Value) (st : EState) (e' : List Scope) (fd' : Nat) :
    (call fuel fn args).run (reEnv e' fd' st) =
      ((call fuel fn args).run st).map (fun r => (r.1, reEnv e' fd' r.2)) ∧
    ∀ v st', (call fuel fn args).run st = .ok (v, st') → st'.env = st.env ∧ st'.frameDepth = st.frameDepth := by
  cases fuel with
  | zero =>
    unfold call
    exact ⟨rfl, fun v st' h => by rw [run_throw] at h; cases h⟩
  | succ fuel =>
    unfold call
    apply withFrame_any
    have hc := frameInd_closed
    refine hc.bind _ _ (closed_declareParams hc _) (fun _ => hc.bind _ _ hc.clearReturn (fun _ => ?_))
    dsimp only
    split
    · exact hc.bind _ _ (frameInd_execSeq fuel _) (fun _ => hc.bind _ _ hc.getReturnValue (fun _ => hc.pure _))
    · exact hc.bind _ _ (frameInd_exec fuel _) (fun _ => hc.bind _ _ hc.getReturnValue (fun _ => hc.pure _))

end BlochVerif.Eval
