import BlochVerif.Eval.Model
/-! Step-by-step facts about `measureQubit` (the one code path every measurement takes in the evaluator model). -/
namespace BlochVerif.Eval
open BlochVerif.Parse

def markF (q : Int) (st : EState) : EState :=
  if q ≥ 0 && q < st.qubits.length then
    { st with qubits := setNth st.qubits q.toNat { (st.qubits.getD q.toNat default) with measured := true } }
  else st

def setLastF (q bit : Int) (st : EState) : EState :=
  if q ≥ 0 && q < st.lastMeasurement.length then { st with lastMeasurement := setNth st.lastMeasurement q.toNat bit }
  else st

theorem measureQubit_decompose (q : Int) (p : P) (st st' : EState) (v : Value)
    (h : (measureQubit q p).run st = .ok (v, st')) :
    ∃ (bit : Int) (st0 st1 : EState), (ensureQubitActive q p).run st = .ok ((), st0) ∧ (simMeasure q).run st0 = .ok (bit, st1) ∧
      v = mkBit bit ∧ st' = setLastF q bit (markF q st1) := by
  unfold measureQubit at h
  rw [StateT.run_bind] at h
  cases h1 : (ensureQubitActive q p).run st with
  | error e => rw [h1] at h; cases h
  | ok r1 =>
    obtain ⟨u, st0⟩ := r1
    rw [h1] at h
    simp only [bind, Except.bind] at h
    have h' : (StateT.bind (simMeasure q) fun bit =>
        StateT.bind (markMeasured q) fun _ => StateT.bind (setLastMeasurement q bit) fun _ => pure (mkBit bit)).run st0 =
        Except.ok (v, st') := h
    clear h
    unfold StateT.bind StateT.run at h'
    simp only at h'
    cases h2 : simMeasure q st0 with
    | error e => rw [h2] at h'; cases h'
    | ok r2 =>
      obtain ⟨bit, st1⟩ := r2
      rw [h2] at h'
      simp only [markMeasured, setLastMeasurement, modify, modifyGet, MonadStateOf.modifyGet, StateT.modifyGet,
        pure, Except.pure, StateT.pure, bind, Except.bind] at h'
      refine ⟨bit, st0, st1, rfl, h2, ?_, ?_⟩
      · cases h'; rfl
      · cases h'; rfl

theorem nextDraw_spec (st : EState) : ∃ r st1, nextDraw.run st = .ok (r, st1) ∧ st1.lastMeasurement = st.lastMeasurement ∧
    st1.qubits = st.qubits ∧ st1.outcomes = st.outcomes ∧ st1.tracked = st.tracked := by
  unfold nextDraw
  cases hd : st.draws with
  | nil => exact ⟨0.5, st, by simp [StateT.run, bind, StateT.bind, get, getThe, MonadStateOf.get, StateT.get, hd, pure, Except.pure, StateT.pure, Except.bind], rfl, rfl, rfl, rfl⟩
  | cons d rest =>
    exact ⟨d, { st with draws := rest }, by simp [StateT.run, bind, StateT.bind, get, getThe, MonadStateOf.get, StateT.get, hd, set, StateT.set, pure, Except.pure, StateT.pure, Except.bind], rfl, rfl, rfl, rfl⟩

theorem simMeasure_spec (q : Int) (st st1 : EState) (bit : Int) (h : (simMeasure q).run st = .ok (bit, st1)) :
    st1.lastMeasurement = st.lastMeasurement ∧ st1.qubits = st.qubits ∧ st1.tracked = st.tracked ∧
    (bit = 0 ∨ bit = 1) ∧ st1.outcomes = ('m', q.toNat, bit.toNat) :: st.outcomes := by
  unfold simMeasure at h
  by_cases hq : q < 0
  · simp [hq, simErr, StateT.run, bind, StateT.bind, throw, throwThe, MonadExceptOf.throw, StateT.lift, Except.bind, liftM, monadLift, MonadLift.monadLift] at h
  · simp only [hq, if_false] at h
    simp only [StateT.run, bind, StateT.bind, get, getThe, MonadStateOf.get, StateT.get, pure, Except.pure, StateT.pure,
      Except.bind] at h
    cases he : Sim.ensureActive st.sim q.toNat with
    | error e =>
      rw [he] at h
      simp [simErr, throw, throwThe, MonadExceptOf.throw, StateT.lift, bind, Except.bind] at h
    | ok u =>
      rw [he] at h
      simp only [StateT.bind, StateT.get, bind, Except.bind, pure, Except.pure] at h
      obtain ⟨r, st0, hr, hl, hqb, ho, ht⟩ := nextDraw_spec st
      have hr' : nextDraw st = Except.ok (r, st0) := hr
      rw [hr'] at h
      simp only at h
      cases hm : Sim.measure Sim.floatOps st0.sim q.toNat r with
      | error e =>
        rw [hm] at h
        simp [simErr, throw, throwThe, MonadExceptOf.throw, StateT.lift, bind, Except.bind] at h
      | ok pr =>
        obtain ⟨s, res⟩ := pr
        rw [hm] at h
        simp only [set, StateT.set, StateT.pure, pure, Except.pure, Except.ok.injEq, Prod.mk.injEq] at h
        simp only [StateT.bind, StateT.set, StateT.pure, bind, Except.bind, pure, Except.pure, Except.ok.injEq, Prod.mk.injEq] at h
        obtain ⟨hb, hs⟩ := h
        subst hs
        have hres : res = 0 ∨ res = 1 := by
          unfold Sim.measure at hm
          cases hea : Sim.ensureActive st0.sim q.toNat with
          | error e => rw [hea] at hm; simp [bind, Except.bind] at hm
          | ok u' =>
            rw [hea] at hm
            simp only [bind, Except.bind, pure, Except.pure, Except.ok.injEq, Prod.mk.injEq] at hm
            obtain ⟨_, h2⟩ := hm
            rw [← h2]
            split <;> simp
        refine ⟨hl, hqb, ht, ?_, ?_⟩
        · rcases hres with h0 | h1
          · left; rw [← hb, h0]; rfl
          · right; rw [← hb, h1]; rfl
        · simp only [ho]
          rw [← hb]
          simp

theorem ensureQubitActive_state (q : Int) (p : P) (st st0 : EState) (h : (ensureQubitActive q p).run st = .ok ((), st0)) : st0 = st := by
  unfold ensureQubitActive ensureQubitExists at h
  simp only [StateT.run, bind, StateT.bind, get, getThe, MonadStateOf.get, StateT.get, pure, Except.pure, StateT.pure,
    Except.bind, rtErr, throw, throwThe, MonadExceptOf.throw, StateT.lift] at h
  by_cases h1 : (decide (q < 0) || decide (q ≥ (st.qubits.length : Int))) = true
  · rw [if_pos h1] at h
    simp [Function.comp, StateT.lift, throwThe, MonadExceptOf.throw, bind, Except.bind] at h
  · rw [if_neg h1] at h
    simp only [StateT.pure, pure, Except.pure] at h
    by_cases h2 : (st.qubits.getD q.toNat default).measured = true
    · rw [if_pos h2] at h
      simp [Function.comp, StateT.lift, throwThe, MonadExceptOf.throw, bind, Except.bind] at h
    · rw [if_neg h2] at h
      simp only [StateT.pure, pure, Except.pure, Except.ok.injEq, Prod.mk.injEq, true_and] at h
      exact h.symm


end BlochVerif.Eval
