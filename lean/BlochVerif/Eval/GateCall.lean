import BlochVerif.Eval.FlagsAgree
/-!
# A gate call is refused only by the evaluator's own, located check

Under the agreement invariant (`Agree`, every reachable state) the simulator never refuses an operation that the
evaluator's guard has let through, so every error of a built-in gate call carries the position of the call.
-/
namespace BlochVerif.Eval
open BlochVerif BlochVerif.Parse BlochVerif.Sim

/-- the guard either passes without touching the state — and then the simulator's guard passes too — or fails with an
error at the given position -/
theorem guard_cases (st : EState) (hi : Agree st) (idx : Int) (p : P) :
    ((ensureQubitActive idx p).run st = .ok ((), st) ∧ 0 ≤ idx ∧ idx.toNat < st.sim.n ∧
        Sim.ensureActive st.sim idx.toNat = .ok ()) ∨
      ∃ msg, (ensureQubitActive idx p).run st = .error (.runtime p.line p.col msg) := by
  unfold ensureQubitActive ensureQubitExists
  by_cases h1 : (idx < 0) ∨ (st.qubits.length : Int) ≤ idx
  · right
    refine ⟨"invalid qubit reference", ?_⟩
    simp only [run_bind', run_get, ebind_ok, run_ite, run_rtErr, run_pure, Bool.or_eq_true, decide_eq_true_eq, h1,
      if_true, ge_iff_le, ebind_err]
  · have hn : 0 ≤ idx := by omega
    have hlt : idx.toNat < st.sim.n := by rw [← hi.count]; omega
    cases hm : (st.qubits.getD idx.toNat default).measured with
    | true =>
      right
      refine ⟨"qubit has already been measured", ?_⟩
      simp only [run_bind', run_get, ebind_ok, run_ite, run_rtErr, run_pure, Bool.or_eq_true, decide_eq_true_eq, h1,
        if_false, ge_iff_le, hm, if_true]
    | false =>
      left
      refine ⟨?_, hn, hlt, ?_⟩
      · simp only [run_bind', run_get, ebind_ok, run_ite, run_rtErr, run_pure, Bool.or_eq_true, decide_eq_true_eq, h1,
          if_false, ge_iff_le, hm, Bool.false_eq_true]
      · have hf : st.sim.measured[idx.toNat]! = false := by rw [← hi.same idx.toNat hlt]; exact hm
        unfold Sim.ensureActive
        rw [if_neg (by omega)]
        simp [hf]

/-- a single-qubit gate on a qubit the simulator's guard accepts is performed -/
theorem simGate_ok (st : EState) (op : QOp Float) (q : Nat) (m : Mat2 CF)
    (hm : gateMat floatOps op = some (q, m)) (ha : Sim.ensureActive st.sim q = .ok ()) :
    ∃ st', (simGate op).run st = .ok ((), st') := by
  unfold simGate
  have : Sim.gate1 floatOps st.sim op = .ok (({ st.sim with amps := applySingle st.sim.amps q m }).log op) := by
    unfold Sim.gate1
    rw [hm]
    simp only [ha, bind, Except.bind, pure, Except.pure]
  simp only [run_bind', run_get, ebind_ok, this]
  exact ⟨_, rfl⟩

theorem simGate_no_error (st : EState) (op : QOp Float) (q : Nat) (m : Mat2 CF)
    (hm : gateMat floatOps op = some (q, m)) (ha : Sim.ensureActive st.sim q = .ok ()) (e : RErr) :
    (simGate op).run st ≠ .error e := by
  obtain ⟨st', hs⟩ := simGate_ok st op q m hm ha
  rw [hs]; intro h; cases h

theorem simCx_ok (st : EState) (c t : Int) (hc : 0 ≤ c) (ht : 0 ≤ t) (hne : c ≠ t)
    (ha : Sim.ensureActive st.sim c.toNat = .ok ()) (hb : Sim.ensureActive st.sim t.toNat = .ok ()) :
    ∃ st', (simCx c t).run st = .ok ((), st') := by
  unfold simCx
  have h0 : ¬ (c < 0 ∨ t < 0) := by omega
  have hne' : c.toNat ≠ t.toNat := by omega
  have : Sim.cx st.sim c.toNat t.toNat =
      .ok (({ st.sim with amps := cxLoop st.sim.amps c.toNat t.toNat }).log (.cx c.toNat t.toNat)) := by
    unfold Sim.cx
    simp only [ha, hb, bind, Except.bind, pure, Except.pure, hne', if_false]
  simp only [run_bind', run_get, ebind_ok, Bool.or_eq_true, decide_eq_true_eq, h0, if_false, this]
  exact ⟨_, rfl⟩

/-- **Every error of a built-in gate call is the evaluator's own, at the position of the call**: in a state where the
flags agree the simulator's un-located refusals (out of range, measured qubit, equal operands) cannot occur. -/
theorem applyBuiltin_errors_are_located (st : EState) (hi : Agree st) (name : String) (argv : List Value) (p : P)
    (e : RErr) (h : (applyBuiltin name argv p).run st = .error e) : ∃ msg, e = .runtime p.line p.col msg := by
  unfold applyBuiltin at h
  dsimp only at h
  split at h
  · -- cx
    rw [run_bind'] at h
    rcases guard_cases st hi (argv.getD 0 {}).qubit p with ⟨g1, hc, _, ha⟩ | ⟨msg, g1⟩
    · rw [g1, ebind_ok, run_bind'] at h
      rcases guard_cases st hi (argv.getD 1 {}).qubit p with ⟨g2, ht, _, hb⟩ | ⟨msg, g2⟩
      · rw [g2, ebind_ok] at h
        dsimp only at h
        split at h
        · rw [run_rtErr] at h; cases h; exact ⟨_, rfl⟩
        · rename_i hne
          obtain ⟨st', hs⟩ := simCx_ok st _ _ hc ht (by simpa using hne) ha hb
          rw [hs] at h; cases h
      · rw [g2, ebind_err] at h; cases h; exact ⟨msg, rfl⟩
    · rw [g1, ebind_err] at h; cases h; exact ⟨msg, rfl⟩
  · rw [run_bind'] at h
    rcases guard_cases st hi (argv.getD 0 {}).qubit p with ⟨g1, _, _, ha⟩ | ⟨msg, g1⟩
    · rw [g1, ebind_ok] at h
      dsimp only at h
      repeat' split at h
      all_goals first
        | (rw [run_rtErr] at h; cases h; exact ⟨_, rfl⟩)
        | (exfalso
           refine simGate_no_error st _ _ _ (by rfl) ha e h)
    · rw [g1, ebind_err] at h; cases h; exact ⟨msg, rfl⟩

/-- a modification never fails -/
theorem modify_then {α : Type} (f : EState → EState) (k : Unit → EM α) (st : EState) :
    ((modify f : EM Unit) >>= k).run st = (k ()).run (f st) := by
  rw [run_bind', run_modify, ebind_ok]

theorem nextDraw_ok (st : EState) : ∃ r st', nextDraw.run st = .ok (r, st') ∧ st'.sim = st.sim := by
  unfold nextDraw
  cases hd : st.draws with
  | nil => exact ⟨0.5, st, by simp only [run_bind', run_get, ebind_ok, hd, run_pure], rfl⟩
  | cons d rest =>
    exact ⟨d, { st with draws := rest }, by simp only [run_bind', run_get, ebind_ok, hd, run_set, run_pure], rfl⟩

theorem simMeasure_ok (st : EState) (q : Int) (hq : 0 ≤ q) (ha : Sim.ensureActive st.sim q.toNat = .ok ()) :
    ∃ v st', (simMeasure q).run st = .ok (v, st') := by
  unfold simMeasure
  have h0 : ¬ q < 0 := by omega
  obtain ⟨r, st1, hr, hs⟩ := nextDraw_ok st
  have hm : Sim.measure floatOps st1.sim q.toNat r =
      .ok ((measureCore floatOps st1.sim q.toNat r).1, if (measureCore floatOps st1.sim q.toNat r).2 then 1 else 0) := by
    unfold Sim.measure
    rw [hs]
    simp only [ha, bind, Except.bind, pure, Except.pure]
  simp only [run_bind', run_pure, run_get, ebind_ok, h0, if_false, ha, hr, hm, run_set]
  exact ⟨_, _, rfl⟩

theorem simReset_ok (st : EState) (q : Int) (hq : 0 ≤ q) (hlt : q.toNat < st.sim.n) :
    ∃ st', (simReset q).run st = .ok ((), st') := by
  unfold simReset
  have h0 : ¬ q < 0 := by omega
  obtain ⟨r, st1, hr, hs⟩ := nextDraw_ok st
  have hm : Sim.reset floatOps st1.sim q.toNat r =
      .ok ((resetCore floatOps st1.sim q.toNat r).1, if (resetCore floatOps st1.sim q.toNat r).2 then 1 else 0) := by
    unfold Sim.reset
    rw [hs]
    have : ¬ q.toNat ≥ st.sim.n := by omega
    simp only [this, if_false, bind, Except.bind, pure, Except.pure]
  simp only [run_bind', run_get, ebind_ok, h0, if_false, hr, hm, run_set]
  exact ⟨_, rfl⟩

/-- **`measure` is refused only by the evaluator's located check** -/
theorem measureQubit_errors_are_located (st : EState) (hi : Agree st) (q : Int) (p : P)
    (e : RErr) (h : (measureQubit q p).run st = .error e) : ∃ msg, e = .runtime p.line p.col msg := by
  unfold measureQubit at h
  rw [run_bind'] at h
  rcases guard_cases st hi q p with ⟨g1, hq, _, ha⟩ | ⟨msg, g1⟩
  · rw [g1, ebind_ok] at h
    dsimp only at h
    obtain ⟨v, st1, hs⟩ := simMeasure_ok st q hq ha
    rw [run_bind', hs, ebind_ok] at h
    dsimp only at h
    unfold markMeasured setLastMeasurement at h
    rw [modify_then, modify_then, run_pure] at h
    cases h
  · rw [g1, ebind_err] at h; cases h; exact ⟨msg, rfl⟩

/-- **`reset` is refused only by the evaluator's located check** -/
theorem resetQubit_errors_are_located (st : EState) (hi : Agree st) (q : Int) (p : P)
    (e : RErr) (h : (resetQubit q p).run st = .error e) : ∃ msg, e = .runtime p.line p.col msg := by
  unfold resetQubit ensureQubitExists at h
  by_cases h1 : (q < 0) ∨ (st.qubits.length : Int) ≤ q
  · simp only [run_bind', run_get, ebind_ok, run_ite, run_rtErr, run_pure, Bool.or_eq_true, decide_eq_true_eq, h1,
      if_true, ge_iff_le, ebind_err] at h
    cases h; exact ⟨_, rfl⟩
  · have hq : 0 ≤ q := by omega
    have hlt : q.toNat < st.sim.n := by rw [← hi.count]; omega
    obtain ⟨st1, hs⟩ := simReset_ok st q hq hlt
    simp only [run_bind', run_get, ebind_ok, run_ite, run_rtErr, run_pure, Bool.or_eq_true, decide_eq_true_eq, h1,
      if_false, ge_iff_le, hs] at h
    unfold unmarkMeasured at h
    rw [run_modify] at h
    cases h

/-! ## the life cycle of the measured flag -/


/-- the guard on a state whose table has the flag of `q` cleared -/
theorem guard_ok_of_flag (st : EState) (q : Int) (p : P) (h0 : 0 ≤ q) (hl : q < st.qubits.length)
    (hf : (st.qubits.getD q.toNat default).measured = false) :
    (ensureQubitActive q p).run st = .ok ((), st) := by
  unfold ensureQubitActive ensureQubitExists
  have h1 : ¬ ((q < 0) ∨ (st.qubits.length : Int) ≤ q) := by omega
  simp only [run_bind', run_get, ebind_ok, run_ite, run_rtErr, run_pure, Bool.or_eq_true, decide_eq_true_eq, h1,
    if_false, ge_iff_le, hf, Bool.false_eq_true]

/-- **After `reset q` the qubit can be operated on again**, whatever its state before -/
theorem reset_makes_usable (st st' : EState) (q : Int) (p : P)
    (h : (resetQubit q p).run st = .ok ((), st')) : (ensureQubitActive q p).run st' = .ok ((), st') := by
  unfold resetQubit ensureQubitExists at h
  by_cases h1 : (q < 0) ∨ (st.qubits.length : Int) ≤ q
  · simp only [run_bind', run_get, ebind_ok, run_ite, run_rtErr, run_pure, Bool.or_eq_true, decide_eq_true_eq, h1,
      if_true, ge_iff_le, ebind_err] at h
    cases h
  · simp only [run_bind', run_get, ebind_ok, run_ite, run_rtErr, run_pure, Bool.or_eq_true, decide_eq_true_eq, h1,
      if_false, ge_iff_le] at h
    cases hs : (simReset q).run st with
    | error e => rw [hs] at h; cases h
    | ok r =>
      obtain ⟨u, st1⟩ := r
      rw [hs, ebind_ok] at h
      unfold unmarkMeasured at h
      rw [run_modify] at h
      cases h
      have hq : st1.qubits = st.qubits := by
        unfold simReset nextDraw at hs
        prim_cases hs <;> rfl
      have hl : q < st.qubits.length := by omega
      have h0 : 0 ≤ q := by omega
      apply guard_ok_of_flag _ q p h0
      · dsimp only
        rw [hq]
        have : (decide (q ≥ 0) && decide (q < (st.qubits.length : Int))) = true := by simp; omega
        simp only [this, if_true, setNth, List.length_set]
        exact hl
      · dsimp only
        rw [hq]
        have : (decide (q ≥ 0) && decide (q < (st.qubits.length : Int))) = true := by simp; omega
        simp only [this, if_true, setNth]
        rw [List.getD_eq_getElem?_getD, List.getElem?_set_self (by omega)]
        rfl


theorem simMeasure_qubits (st st1 : EState) (q v : Int) (hs : (simMeasure q).run st = .ok (v, st1)) :
    st1.qubits = st.qubits := by
  unfold simMeasure nextDraw at hs
  prim_cases hs <;> rfl

/-- **After `measure q` every further operation on `q` is refused**, at the position of the operation, until a reset -/
theorem measure_makes_unusable (st st' : EState) (q : Int) (p p' : P) (v : Value)
    (h : (measureQubit q p).run st = .ok (v, st')) :
    (ensureQubitActive q p').run st' = .error (.runtime p'.line p'.col "qubit has already been measured") := by
  unfold measureQubit at h
  obtain ⟨u, s1, g1, k1⟩ := run_bind_ok h
  -- the guard passed: q is a valid reference and the state is unchanged
  have hv : 0 ≤ q ∧ q < st.qubits.length ∧ s1 = st := by
    unfold ensureQubitActive ensureQubitExists at g1
    by_cases h1 : (q < 0) ∨ (st.qubits.length : Int) ≤ q
    · simp only [run_bind', run_get, ebind_ok, run_ite, run_rtErr, run_pure, Bool.or_eq_true, decide_eq_true_eq, h1,
        if_true, ge_iff_le, ebind_err] at g1
      cases g1
    · simp only [run_bind', run_get, ebind_ok, run_ite, run_rtErr, run_pure, Bool.or_eq_true, decide_eq_true_eq, h1,
        if_false, ge_iff_le] at g1
      split at g1
      · cases g1
      · cases g1; exact ⟨by omega, by omega, rfl⟩
  obtain ⟨h0, hl, hs1⟩ := hv
  subst hs1
  obtain ⟨bit, s2, g2, k2⟩ := run_bind_ok k1
  have hq := simMeasure_qubits _ _ _ _ g2
  unfold markMeasured setLastMeasurement at k2
  rw [modify_then, modify_then, run_pure] at k2
  cases k2
  have hl2 : q < (s2.qubits.length : Int) := by rw [hq]; exact hl
  have hc : (decide (q ≥ 0) && decide (q < (s2.qubits.length : Int))) = true := by simp; omega
  unfold ensureQubitActive ensureQubitExists
  simp only [hc, if_true]
  -- the state after marking: the table entry of q has its flag set, whatever `setLastMeasurement` did
  split
  all_goals (
    try dsimp only
    have hlen : ¬ ((q < 0) ∨ (((setNth s2.qubits q.toNat { (s2.qubits.getD q.toNat default) with measured := true }).length : Nat) : Int) ≤ q) := by
      simp only [setNth, List.length_set]; omega
    have hfl : ((setNth s2.qubits q.toNat { (s2.qubits.getD q.toNat default) with measured := true }).getD q.toNat default).measured = true := by
      simp only [setNth]
      rw [List.getD_eq_getElem?_getD, List.getElem?_set_self (by omega)]
      rfl
    simp only [run_bind', run_get, ebind_ok, run_ite, run_rtErr, run_pure, Bool.or_eq_true, decide_eq_true_eq, hlen,
      if_false, ge_iff_le, hfl, if_true])


theorem guard_state (st st' : EState) (q : Int) (p : P) (h : (ensureQubitActive q p).run st = .ok ((), st')) : st' = st := by
  unfold ensureQubitActive ensureQubitExists at h
  prim_cases h <;> rfl

/-- a built-in gate call never touches the evaluator's qubit table: the flags are exactly what they were -/
theorem gate_call_keeps_the_flags (st st' : EState) (name : String) (argv : List Value) (p : P)
    (h : (applyBuiltin name argv p).run st = .ok ((), st')) : st'.qubits = st.qubits := by
  unfold applyBuiltin at h
  dsimp only at h
  split at h
  · obtain ⟨_, s1, g1, k1⟩ := run_bind_ok h
    have e1 := guard_state _ _ _ _ g1
    subst e1
    obtain ⟨_, s2, g2, k2⟩ := run_bind_ok k1
    have e2 := guard_state _ _ _ _ g2
    subst e2
    try dsimp only at k2
    split at k2
    · rw [run_rtErr] at k2; cases k2
    · unfold simCx at k2
      prim_cases k2 <;> rfl
  · obtain ⟨_, s1, g1, k1⟩ := run_bind_ok h
    have e1 := guard_state _ _ _ _ g1
    subst e1
    try dsimp only at k1
    repeat' split at k1
    all_goals first
      | (rw [run_rtErr] at k1; cases k1)
      | (unfold simGate at k1; prim_cases k1 <;> rfl)

end BlochVerif.Eval
