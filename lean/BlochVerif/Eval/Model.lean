import BlochVerif.Parse.Ast
import BlochVerif.Eval.Value
import BlochVerif.Sim.FloatInst
import BlochVerif.Sim.Qasm
/-!
# Model of `src/bloch/runtime/runtime_evaluator.cpp` — class-free fragment

`eval`/`exec`/`call` mirror the C++ `dynamic_cast` cascades branch for branch, including the
dynamic value tags, the shared scope stack (`m_env`), the return flags, the echo buffer, the qubit
book (`m_qubits`, `m_lastMeasurement`), tracked counts, and the calls into the simulator model
(`Sim/Model.lean`, executed with `Float`).  The random draws of `measure`/`reset` are an explicit
input list.

Fragment: everything except classes (`new`, member access, `this`/`super`, `destroy`, methods).
A program that reaches one of those answers `unsupported` — never a default.  Core-only.
-/
namespace BlochVerif.Eval
open BlochVerif BlochVerif.Parse BlochVerif.Sim

inductive RErr where
  | runtime (line col : Nat) (msg : String)
  | unsupported (what : String)
  | outOfFuel
deriving Repr, Inhabited

structure VarEntry where
  value : Value
  tracked : Bool := false
  initialized : Bool := false
deriving Inhabited

abbrev Scope := List (String × VarEntry)

structure QubitInfo where
  name : String
  measured : Bool
deriving Inhabited

structure EState where
  sim : Sim.State CF Float
  env : List Scope := []                  -- innermost scope first
  frameDepth : Nat := 0                   -- number of innermost scopes that belong to the current call frame
  returnValue : Value := {}
  hasReturn : Bool := false
  echoEnabled : Bool := true
  echo : List String := []                -- reversed
  tracked : List (String × String × Nat) := []   -- (name, outcome, count)
  qubits : List QubitInfo := []
  freeQubits : List Int := []             -- back of the C++ vector = head
  lastMeasurement : List Int := []
  draws : List Float := []
  outcomes : List (Char × Nat × Nat) := []   -- reversed: ('m'|'r', qubit, outcome)
  /-- `m_functions`: the function table is only ever consulted by name -/
  lookupFn : String → Option FuncDecl := fun _ => none

abbrev EM := StateT EState (Except RErr)

def rtErr {α : Type} (p : P) (msg : String) : EM α := throw (.runtime p.line p.col msg)

/-! ### scopes -/

def Scope.set (s : Scope) (name : String) (e : VarEntry) : Scope :=
  if s.any (·.1 == name) then s.map (fun kv => if kv.1 == name then (name, e) else kv)
  else s ++ [(name, e)]

def beginScope : EM Unit := modify fun st => { st with env := [] :: st.env, frameDepth := st.frameDepth + 1 }

/-- `FrameBaseGuard` + `beginScope` at a call boundary: the new scope starts a new frame; returns the
    caller's frame depth for the matching `leaveFrame` -/
def enterFrame : EM Nat := do
  let st ← get
  set { st with env := [] :: st.env, frameDepth := 1 }
  pure st.frameDepth

def leaveFrame (saved : Nat) : EM Unit := modify fun st => { st with frameDepth := saved }

def bump (tr : List (String × String × Nat)) (key outcome : String) : List (String × String × Nat) :=
  if tr.any (fun t => t.1 = key ∧ t.2.1 = outcome) then
    tr.map (fun t => if t.1 = key ∧ t.2.1 = outcome then (t.1, t.2.1, t.2.2 + 1) else t)
  else tr ++ [(key, outcome, 1)]

def lastOf (lm : List Int) (q : Int) : Option Int :=
  if q ≥ 0 && q < lm.length then
    let v := lm.getD q.toNat (-1)
    if v != -1 then some v else none
  else none

/-- "0"/"1" for the last measurement of a qubit, "?" when there is none -/
def outcomeChar (lm : List Int) (q : Int) : String :=
  match lastOf lm q with
  | some b => if b != 0 then "1" else "0"
  | none => "?"

/-- the outcome string `endScope`/`recordTrackedValue` record for a tracked value -/
def trackedOutcome (lm : List Int) (v : Value) : Option (String × String) :=
  match v.type with
  | .Qubit => some ("qubit ", outcomeChar lm v.qubit)
  | .QubitArray =>
    let all := v.qubitArray.all (fun q => (lastOf lm q).isSome)
    some ("qubit[] ", if !all then "?" else String.join (v.qubitArray.map (outcomeChar lm)))
  | _ => none

/-- `endScope` -/
def endScope : EM Unit := modify fun st =>
  match st.env with
  | [] => st
  | top :: rest =>
    let tr := top.foldl (fun tr kv =>
      if !kv.2.tracked then tr else
      match trackedOutcome st.lastMeasurement kv.2.value with
      | some (pre, outcome) => bump tr (pre ++ kv.1) outcome
      | none => tr) st.tracked
    { st with env := rest, tracked := tr, frameDepth := st.frameDepth - 1 }

def declareVar (name : String) (e : VarEntry) : EM Unit := modify fun st =>
  match st.env with
  | top :: rest => { st with env := top.set name e :: rest }
  | [] => { st with env := [[(name, e)]] }

/-- `lookup` (class-free part): innermost binding, else void -/
def lookup (name : String) : EM Value := do
  let st ← get
  match (st.env.take st.frameDepth).findSome? (fun sc => (sc.find? (·.1 == name)).map (·.2.value)) with
  | some v => pure v
  | none => pure {}

/-- "int values can widen to long in assignments and calls": an int bound to a long slot is stored as a long -/
def widenIntToLong (v : Value) : Value :=
  if v.type == .Int then { v with type := .Long, longValue := v.intValue } else v

def widenLike (slot v : Value) : Value := if slot.type == .Long then widenIntToLong v else v

def widenFor (declared : Ty) (v : Value) : Value :=
  match declared with
  | .prim "long" => widenIntToLong v
  | _ => v

/-- `assign` (class-free part): innermost existing binding, else a new one in the top scope -/
def assignVar (name : String) (v : Value) : EM Unit := do
  let st ← get
  let rec go : List Scope → Option (List Scope)
    | [] => none
    | sc :: rest =>
      match sc.find? (·.1 == name) with
      | some (_, old) =>
        let nv := if old.value.type == .Object && v.type == .Object && v.objectValue.isSome &&
            old.value.className != "" then { v with className := old.value.className } else v
        some (sc.set name { old with value := widenLike old.value nv, initialized := true } :: rest)
      | none => (go rest).map (sc :: ·)
  match go (st.env.take st.frameDepth) with
  | some env' => set { st with env := env' ++ st.env.drop st.frameDepth }
  | none => declareVar name { value := v, tracked := false, initialized := true }

/-! ### qubit book -/

def setNth {α : Type} (l : List α) (i : Nat) (v : α) : List α := l.set i v

def unmarkMeasured (idx : Int) : EM Unit := modify fun st =>
  let qs := if idx ≥ 0 && idx < st.qubits.length then
      setNth st.qubits idx.toNat { (st.qubits.getD idx.toNat default) with measured := false } else st.qubits
  let lm := if idx ≥ 0 && idx < st.lastMeasurement.length then setNth st.lastMeasurement idx.toNat (-1)
    else st.lastMeasurement
  { st with qubits := qs, lastMeasurement := lm }

def markMeasured (idx : Int) : EM Unit := modify fun st =>
  if idx ≥ 0 && idx < st.qubits.length then
    { st with qubits := setNth st.qubits idx.toNat { (st.qubits.getD idx.toNat default) with measured := true } }
  else st

def ensureQubitExists (idx : Int) (p : P) : EM Unit := do
  let st ← get
  if idx < 0 || idx ≥ st.qubits.length then rtErr p "invalid qubit reference"

def ensureQubitActive (idx : Int) (p : P) : EM Unit := do
  ensureQubitExists idx p
  let st ← get
  if (st.qubits.getD idx.toNat default).measured then rtErr p "qubit has already been measured"

def nextDraw : EM Float := do
  let st ← get
  match st.draws with
  | d :: rest => set { st with draws := rest }; pure d
  | [] => pure 0.5

def simErr {α : Type} (e : SimErr) : EM α :=
  -- the simulator's own checks are un-located (line 0, column 0)
  throw (.runtime 0 0 (match e with
    | .outOfRange _ => "qubit index out of range"
    | .measured _ => "cannot operate on measured qubit"
    | .sameOperand _ => "cx requires distinct control and target qubits"))

def simReset (q : Int) : EM Unit := do
  let st ← get
  if q < 0 then simErr (.outOfRange q)
  let r ← nextDraw
  let st ← get
  match Sim.reset floatOps st.sim q.toNat r with
  | .ok (s, res) => set { st with sim := s, outcomes := ('r', q.toNat, res) :: st.outcomes }
  | .error e => simErr e

def simMeasure (q : Int) : EM Int := do
  if q < 0 then simErr (.outOfRange q)
  let st ← get
  -- the C++ draws before nothing can fail any more (ensureQubitActive comes first)
  match Sim.ensureActive st.sim q.toNat with
  | .error e => simErr e
  | .ok _ =>
    let r ← nextDraw
    let st ← get
    match Sim.measure floatOps st.sim q.toNat r with
    | .ok (s, res) =>
      set { st with sim := s, outcomes := ('m', q.toNat, res) :: st.outcomes }
      pure res
    | .error e => simErr e

def simGate (op : QOp Float) : EM Unit := do
  let st ← get
  match Sim.gate1 floatOps st.sim op with
  | .ok s => set { st with sim := s }
  | .error e => simErr e

def simCx (c t : Int) : EM Unit := do
  if c < 0 || t < 0 then simErr (.outOfRange (if c < 0 then c else t))
  let st ← get
  match Sim.cx st.sim c.toNat t.toNat with
  | .ok s => set { st with sim := s }
  | .error e => simErr e

/-- `allocateTrackedQubit` -/
def allocateTrackedQubit (name : String) : EM Int := do
  let st ← get
  match st.freeQubits with
  | idx :: rest =>
    set { st with freeQubits := rest }
    simReset idx
    unmarkMeasured idx
    modify fun st =>
      let qs := if idx ≥ st.qubits.length then st.qubits ++ List.replicate (idx.toNat + 1 - st.qubits.length) default else st.qubits
      let qs := setNth qs idx.toNat { name := name, measured := false }
      let lm := if idx ≥ st.lastMeasurement.length then
        st.lastMeasurement ++ List.replicate (idx.toNat + 1 - st.lastMeasurement.length) (-1) else st.lastMeasurement
      { st with qubits := qs, lastMeasurement := lm }
    pure idx
  | [] =>
    let (s, i) := Sim.allocate floatOps st.sim
    let idx : Int := i
    let qs := st.qubits ++ [{ name := name, measured := false : QubitInfo }]
    let qs := if idx ≥ qs.length then qs ++ List.replicate (idx.toNat + 1 - qs.length) default else qs
    let qs := setNth qs idx.toNat { name := name, measured := false }
    let lm := if idx ≥ st.lastMeasurement.length then
      st.lastMeasurement ++ List.replicate (idx.toNat + 1 - st.lastMeasurement.length) (-1) else st.lastMeasurement
    set { st with sim := s, qubits := qs, lastMeasurement := lm }
    pure idx

def setLastMeasurement (q bit : Int) : EM Unit := modify fun st =>
  if q ≥ 0 && q < st.lastMeasurement.length then { st with lastMeasurement := setNth st.lastMeasurement q.toNat bit }
  else st

/-- one measurement as every access path performs it: guard, simulator measurement with the next draw, set the
measured flag, remember the outcome; the value is what a measure *expression* returns -/
def measureQubit (q : Int) (p : P) : EM Value := do
  ensureQubitActive q p
  let bit ← simMeasure q
  markMeasured q
  setLastMeasurement q bit
  pure (mkBit bit)

/-- `reset q;` as every access path performs it: the handle must exist, the simulator resets (clearing its own
flag), the evaluator's flag and remembered outcome are cleared -/
def resetQubit (q : Int) (p : P) : EM Unit := do
  ensureQubitExists q p
  simReset q
  unmarkMeasured q

/-! ### operators -/

def isObjectLike (v : Value) : Bool := v.type == .Object || v.type == .ClassRef

def toInt64 (v : Value) : Int :=
  match v.type with
  | .Long => v.longValue
  | .Int => v.intValue
  | .Bit => v.bitValue
  | _ => 0

def bitOp (op : String) (a b : Int) : Int :=
  let x := a != 0; let y := b != 0
  -- operands are 0/1 in every reachable state; computed on the low bit like `&`, `|`, `^` on 0/1
  if op == "&" then (if x && y then 1 else 0)
  else if op == "|" then (if x || y then 1 else 0)
  else (if x != y then 1 else 0)

/-- the binary-operator cascade of `eval(BinaryExpression)` on two already-evaluated operands -/
def binop (op : String) (l r : Value) (p : P) : Except RErr Value := do
  let err (msg : String) : Except RErr Value := .error (.runtime p.line p.col msg)
  if op == "==" || op == "!=" then
    if isObjectLike l || isObjectLike r then
      if l.type == .Object && r.type == .Object then
        let eq := l.objectValue == r.objectValue
        return mkBool (if op == "==" then eq else !eq)
      else if l.type == .ClassRef && r.type == .ClassRef then
        let eq := l.className == r.className
        return mkBool (if op == "==" then eq else !eq)
      else return ← err "equality on references requires two class references"
    if l.type == .String || r.type == .String then
      if l.type != .String || r.type != .String then return ← err "equality requires two strings"
      let eq := l.stringValue == r.stringValue
      return mkBool (if op == "==" then eq else !eq)
    if l.type == .Char || r.type == .Char then
      if l.type != .Char || r.type != .Char then return ← err "equality requires two chars"
      let eq := l.charValue == r.charValue
      return mkBool (if op == "==" then eq else !eq)
  if op == "+" && (l.type == .String || r.type == .String) then
    return mkString (valueToString l ++ valueToString r)
  if l.type == .Boolean || r.type == .Boolean then
    let toBool (v : Value) : Except RErr Bool :=
      if v.type == .Boolean then .ok v.boolValue
      else if v.type == .Bit then .ok (v.bitValue != 0)
      else .error (.runtime p.line p.col "boolean operations require boolean or bit operands")
    if op == "&&" || op == "||" then
      let lb ← toBool l; let rb ← toBool r
      return mkBool (if op == "&&" then lb && rb else lb || rb)
    if op == "==" || op == "!=" then
      let lb ← toBool l; let rb ← toBool r
      return mkBool (if op == "==" then lb == rb else lb != rb)
    return ← err ("operator '" ++ op ++ "' not supported for boolean")
  let lInt := toInt64 l
  let rInt := toInt64 r
  let hasFloat := l.type == .Float || r.type == .Float
  let hasLong := l.type == .Long || r.type == .Long
  let lNum := if l.type == .Float then l.floatValue else intToFloat lInt
  let rNum := if r.type == .Float then r.floatValue else intToFloat rInt
  if op == "+" then
    if isObjectLike l || isObjectLike r then return ← err "operator '+' not supported for class references"
    if hasFloat then return mkFloat (lNum + rNum)
    if hasLong then return mkLong (wrap64 (lInt + rInt))
    return mkInt (wrap32 (lInt + rInt))
  if isObjectLike l || isObjectLike r then
    return ← err ("operator '" ++ op ++ "' not supported for class references")
  if op == "-" then
    if hasFloat then return mkFloat (lNum - rNum)
    if hasLong then return mkLong (wrap64 (lInt - rInt))
    return mkInt (wrap32 (lInt - rInt))
  if op == "*" then
    if hasFloat then return mkFloat (lNum * rNum)
    if hasLong then return mkLong (wrap64 (lInt * rInt))
    return mkInt (wrap32 (lInt * rInt))
  if op == "/" then
    if rNum == 0.0 then return ← err "division by zero"
    return mkFloat (lNum / rNum)
  if op == "%" then
    if rInt == 0 then return ← err "modulo by zero"
    let rem := if rInt == -1 then 0 else Int.tmod lInt rInt
    if hasLong then return mkLong rem
    return mkInt (wrap32 rem)
  if op == ">" then return mkBool (if hasFloat then lNum > rNum else lInt > rInt)
  if op == "<" then return mkBool (if hasFloat then lNum < rNum else lInt < rInt)
  if op == ">=" then return mkBool (if hasFloat then lNum >= rNum else lInt >= rInt)
  if op == "<=" then return mkBool (if hasFloat then lNum <= rNum else lInt <= rInt)
  if op == "==" then return mkBool (if hasFloat then lNum == rNum else lInt == rInt)
  if op == "!=" then return mkBool (if hasFloat then lNum != rNum else lInt != rInt)
  if op == "&&" || op == "||" then
    let lb := if l.type == .Float then lNum != 0.0 else lInt != 0
    let rb := if r.type == .Float then rNum != 0.0 else rInt != 0
    return mkBool (if op == "&&" then lb && rb else lb || rb)
  if op == "&" || op == "|" || op == "^" then
    if l.type == .Bit && r.type == .Bit then return mkBit (bitOp op l.bitValue r.bitValue)
    if l.type == .BitArray && r.type == .BitArray then
      if l.bitArray.length != r.bitArray.length then
        return ← err ("bit arrays must be same length for '" ++ op ++ "'")
      return { type := .BitArray, bitArray := List.zipWith (bitOp op) l.bitArray r.bitArray }
    if l.type == .BitArray && r.type == .Bit then
      return { type := .BitArray, bitArray := l.bitArray.map (fun a => bitOp op a r.bitValue) }
    if l.type == .Bit && r.type == .BitArray then
      return { type := .BitArray, bitArray := r.bitArray.map (fun b => bitOp op l.bitValue b) }
    return ← err ("bitwise '" ++ op ++ "' requires bit or bit[] operands")
  -- an operator the cascade does not know falls out of the `if` chain: void
  return {}

def unop (op : String) (r : Value) (p : P) : Except RErr Value :=
  if op == "-" then
    if r.type == .Float then .ok (mkFloat (-r.floatValue))
    else if r.type == .Long then .ok (mkLong (wrap64 (-r.longValue)))
    else .ok (mkInt (wrap32 (-r.intValue)))
  else if op == "!" then
    if r.type == .BitArray || r.type == .BooleanArray then
      .error (.runtime p.line p.col "logical '!' unsupported for bit[] or boolean[]")
    else
      let rb := if r.type == .Boolean then r.boolValue
        else if r.type == .Float then r.floatValue != 0.0
        else if r.type == .Long then r.longValue != 0
        else if r.type == .Bit then r.bitValue != 0
        else if r.type == .Int then r.intValue != 0 else false
      .ok (mkBool (!rb))
  else if op == "~" then
    if r.type == .Bit then .ok (mkBit (if r.bitValue != 0 then 0 else 1))
    else if r.type == .BitArray then .ok { type := .BitArray, bitArray := r.bitArray.map (fun b => if b != 0 then 0 else 1) }
    else .error (.runtime p.line p.col "bitwise '~' requires bit or bit[] operand")
  else .ok r

/-- `(T) value` for a primitive target -/
def castValue (target : Ty) (v : Value) (p : P) : Except RErr Value :=
  let bad : Except RErr Value := .error (.runtime p.line p.col "invalid cast operation")
  match target with
  | .prim "int" =>
    if v.type == .Int then .ok (mkInt v.intValue)
    else if v.type == .Long then .ok (mkInt (wrap32 v.longValue))
    else if v.type == .Bit then .ok (mkInt v.bitValue)
    else if v.type == .Float then .ok (mkInt (floatToInt32 v.floatValue))
    else if v.type == .Char then .ok (mkInt (if v.charValue ≥ 128 then (v.charValue : Int) - 256 else v.charValue))
    else bad
  | .prim "long" =>
    if v.type == .Long then .ok (mkLong v.longValue)
    else if v.type == .Int then .ok (mkLong v.intValue)
    else if v.type == .Bit then .ok (mkLong v.bitValue)
    else if v.type == .Float then .ok (mkLong (floatToInt64 v.floatValue))
    else if v.type == .Char then .ok (mkLong (if v.charValue ≥ 128 then (v.charValue : Int) - 256 else v.charValue))
    else bad
  | .prim "float" =>
    if v.type == .Float then .ok (mkFloat v.floatValue)
    else if v.type == .Int then .ok (mkFloat (intToFloat v.intValue))
    else if v.type == .Long then .ok (mkFloat (intToFloat v.longValue))
    else if v.type == .Bit then .ok (mkFloat (intToFloat v.bitValue))
    else if v.type == .Char then .ok (mkFloat (intToFloat (if v.charValue ≥ 128 then (v.charValue : Int) - 256 else v.charValue)))
    else bad
  | .prim "bit" =>
    if v.type == .Bit then .ok (mkBit v.bitValue)
    else if v.type == .Int then .ok (mkBit (if v.intValue != 0 then 1 else 0))
    else if v.type == .Long then .ok (mkBit (if v.longValue != 0 then 1 else 0))
    else if v.type == .Float then .ok (mkBit (if v.floatValue != 0.0 then 1 else 0))
    else bad
  | .prim "char" =>
    if v.type == .Char then .ok { type := .Char, charValue := v.charValue }
    else if v.type == .Int then .ok { type := .Char, charValue := (v.intValue % 256).toNat }
    else if v.type == .Long then .ok { type := .Char, charValue := (v.longValue % 256).toNat }
    else bad
  | _ => bad

/-- literal → value; `none` where `std::stoi`/`std::stof` throw (reported as a located runtime error) -/
def literalValue (value ty : String) : Option Value :=
  if ty == "bit" then (stoiPrefix value).map mkBit
  else if ty == "boolean" then some (mkBool (value == "true"))
  else if ty == "long" then
    let text := if value.endsWith "L" || value.endsWith "l" then (value.dropEnd 1).toString else value
    some (mkLong ((stollPrefix text).getD 0))
  else if ty == "float" then (stofLiteral value).map mkFloat
  else if ty == "string" then
    some (mkString (if value.length ≥ 2 then String.ofList ((value.toList.drop 1).dropLast) else ""))
  else if ty == "char" then
    some { type := .Char, charValue := if value.length ≥ 3 then (value.toList.getD 1 '\x00').toNat else 0 }
  else (stoiPrefix value).map mkInt

def isTruthy (v : Value) : Bool :=
  match v.type with
  | .Boolean => v.boolValue
  | .Bit => v.bitValue != 0
  | .Int => v.intValue != 0
  | .Long => v.longValue != 0
  | .Float => v.floatValue != 0.0
  | _ => false

def indexOf (v : Value) (p : P) : Except RErr Int :=
  if v.type == .Int then .ok v.intValue
  else if v.type == .Long then
    -- a long beyond the int range is out of bounds for every array: saturated, not truncated
    .ok (if v.longValue > 2147483647 then 2147483647 else if v.longValue < 0 then -1 else v.longValue)
  else if v.type == .Bit then .ok v.bitValue
  else if v.type == .Float then .ok (floatToInt32 v.floatValue)
  else .error (.runtime p.line p.col "index must be numeric")

def oob (i : Int) (len : Nat) (p : P) : RErr :=
  .runtime p.line p.col ("index " ++ toString i ++ " out of bounds for length " ++ toString len)

/-- `coll[i]` on evaluated operands -/
def indexValue (coll : Value) (i : Int) (p : P) : Except RErr Value :=
  let chk (len : Nat) : Except RErr Nat := if i < 0 || i ≥ len then .error (oob i len p) else .ok i.toNat
  match coll.type with
  | .BitArray => do let k ← chk coll.bitArray.length; pure (mkBit (coll.bitArray.getD k 0))
  | .IntArray => do let k ← chk coll.intArray.length; pure (mkInt (coll.intArray.getD k 0))
  | .LongArray => do let k ← chk coll.longArray.length; pure (mkLong (coll.longArray.getD k 0))
  | .FloatArray => do let k ← chk coll.floatArray.length; pure (mkFloat (coll.floatArray.getD k 0.0))
  | .BooleanArray => do let k ← chk coll.boolArray.length; pure (mkBool (coll.boolArray.getD k false))
  | .StringArray => do let k ← chk coll.stringArray.length; pure (mkString (coll.stringArray.getD k ""))
  | .CharArray => do let k ← chk coll.charArray.length; pure { type := .Char, charValue := coll.charArray.getD k 0 }
  | .QubitArray => do let k ← chk coll.qubitArray.length; pure { type := .Qubit, qubit := coll.qubitArray.getD k (-1) }
  | _ => .error (.runtime p.line p.col "indexing requires an array value")

/-- `arr[i] = rhs` on evaluated operands (`ArrayAssignmentExpression`) -/
def arrayStore (arr : Value) (i : Int) (rhs : Value) (p : P) : Except RErr Value :=
  let chk (len : Nat) : Except RErr Nat := if i < 0 || i ≥ len then .error (oob i len p) else .ok i.toNat
  let mism (what : String) : Except RErr Value := .error (.runtime p.line p.col ("type mismatch for " ++ what ++ " assignment"))
  match arr.type with
  | .IntArray => do
    let k ← chk arr.intArray.length
    if rhs.type == .Int then pure { arr with intArray := arr.intArray.set k rhs.intValue }
    else if rhs.type == .Long then pure { arr with intArray := arr.intArray.set k (wrap32 rhs.longValue) }
    else if rhs.type == .Bit then pure { arr with intArray := arr.intArray.set k rhs.bitValue }
    else if rhs.type == .Float then pure { arr with intArray := arr.intArray.set k (floatToInt32 rhs.floatValue) }
    else mism "int[]"
  | .LongArray => do
    let k ← chk arr.longArray.length
    if rhs.type == .Long then pure { arr with longArray := arr.longArray.set k rhs.longValue }
    else if rhs.type == .Int then pure { arr with longArray := arr.longArray.set k rhs.intValue }
    else if rhs.type == .Bit then pure { arr with longArray := arr.longArray.set k rhs.bitValue }
    else if rhs.type == .Float then pure { arr with longArray := arr.longArray.set k (floatToInt64 rhs.floatValue) }
    else mism "long[]"
  | .FloatArray => do
    let k ← chk arr.floatArray.length
    if rhs.type == .Float then pure { arr with floatArray := arr.floatArray.set k rhs.floatValue }
    else if rhs.type == .Int then pure { arr with floatArray := arr.floatArray.set k (intToFloat rhs.intValue) }
    else if rhs.type == .Long then pure { arr with floatArray := arr.floatArray.set k (intToFloat rhs.longValue) }
    else if rhs.type == .Bit then pure { arr with floatArray := arr.floatArray.set k (intToFloat rhs.bitValue) }
    else mism "float[]"
  | .BitArray => do
    let k ← chk arr.bitArray.length
    if rhs.type == .Bit then pure { arr with bitArray := arr.bitArray.set k (if rhs.bitValue != 0 then 1 else 0) }
    else if rhs.type == .Int then pure { arr with bitArray := arr.bitArray.set k (if rhs.intValue != 0 then 1 else 0) }
    else mism "bit[]"
  | .BooleanArray => do
    let k ← chk arr.boolArray.length
    if rhs.type == .Boolean then pure { arr with boolArray := arr.boolArray.set k rhs.boolValue }
    else if rhs.type == .Bit then pure { arr with boolArray := arr.boolArray.set k (rhs.bitValue != 0) }
    else mism "boolean[]"
  | .StringArray => do
    let k ← chk arr.stringArray.length
    if rhs.type == .String then pure { arr with stringArray := arr.stringArray.set k rhs.stringValue }
    else mism "string[]"
  | .CharArray => do
    let k ← chk arr.charArray.length
    if rhs.type == .Char then pure { arr with charArray := arr.charArray.set k rhs.charValue }
    else mism "char[]"
  | _ => .error (.runtime p.line p.col "assignment into this array type is unsupported")

def liftE {α : Type} (x : Except RErr α) : EM α :=
  match x with
  | .ok a => pure a
  | .error e => throw e

def builtinGates : List String := ["h", "x", "y", "z", "rx", "ry", "rz", "cx"]

/-- the element conversion of a typed array initialiser `T[] a = {…}` -/
def typedElem (elem : String) (ev : Value) (p : P) : Except RErr (Value → Value) :=
  let bad (msg : String) : Except RErr (Value → Value) := .error (.runtime p.line p.col msg)
  if elem == "bit" then
    if ev.type != .Bit then bad "bit[] initialiser expects bit elements"
    else .ok fun v => { v with bitArray := v.bitArray ++ [if ev.bitValue != 0 then 1 else 0] }
  else if elem == "boolean" then
    if ev.type == .Boolean then .ok fun v => { v with boolArray := v.boolArray ++ [ev.boolValue] }
    else if ev.type == .Bit then .ok fun v => { v with boolArray := v.boolArray ++ [ev.bitValue != 0] }
    else bad "boolean[] initialiser expects boolean elements"
  else if elem == "int" then
    if ev.type == .Int then .ok fun v => { v with intArray := v.intArray ++ [ev.intValue] }
    else if ev.type == .Long then .ok fun v => { v with intArray := v.intArray ++ [wrap32 ev.longValue] }
    else if ev.type == .Bit then .ok fun v => { v with intArray := v.intArray ++ [ev.bitValue] }
    else if ev.type == .Float then .ok fun v => { v with intArray := v.intArray ++ [floatToInt32 ev.floatValue] }
    else bad "int[] initialiser expects integer elements"
  else if elem == "long" then
    if ev.type == .Long then .ok fun v => { v with longArray := v.longArray ++ [ev.longValue] }
    else if ev.type == .Int then .ok fun v => { v with longArray := v.longArray ++ [ev.intValue] }
    else if ev.type == .Bit then .ok fun v => { v with longArray := v.longArray ++ [ev.bitValue] }
    else if ev.type == .Float then .ok fun v => { v with longArray := v.longArray ++ [floatToInt64 ev.floatValue] }
    else bad "long[] initialiser expects integer elements"
  else if elem == "float" then
    if ev.type == .Float then .ok fun v => { v with floatArray := v.floatArray ++ [ev.floatValue] }
    else if ev.type == .Int then .ok fun v => { v with floatArray := v.floatArray ++ [intToFloat ev.intValue] }
    else if ev.type == .Bit then .ok fun v => { v with floatArray := v.floatArray ++ [intToFloat ev.bitValue] }
    else bad "float[] initialiser expects float elements"
  else if elem == "string" then
    if ev.type != .String then bad "string[] initialiser expects string elements"
    else .ok fun v => { v with stringArray := v.stringArray ++ [ev.stringValue] }
  else if elem == "char" then
    if ev.type == .Char then .ok fun v => { v with charArray := v.charArray ++ [ev.charValue] }
    else bad "char[] initialiser expects char elements"
  else .ok id

def arrayTypeOf (elem : String) : VT :=
  if elem == "bit" then .BitArray else if elem == "boolean" then .BooleanArray
  else if elem == "int" then .IntArray else if elem == "long" then .LongArray
  else if elem == "float" then .FloatArray else if elem == "string" then .StringArray
  else if elem == "char" then .CharArray else if elem == "qubit" then .QubitArray else .Void

def primTypeOf (name : String) : VT :=
  if name == "int" then .Int else if name == "long" then .Long else if name == "bit" then .Bit
  else if name == "boolean" then .Boolean else if name == "float" then .Float
  else if name == "string" then .String else if name == "char" then .Char
  else if name == "qubit" then .Qubit else .Void

/-- the untyped array-literal rule: element `ev` appended to an array whose type was fixed by the
    first element -/
def untypedElem (first : VT) (ev : Value) (p : P) : Except RErr (Value → Value) :=
  let bad : Except RErr (Value → Value) := .error (.runtime p.line p.col "inconsistent element types in array literal")
  match first with
  | .Bit => if ev.type != .Bit then bad else .ok fun v => { v with bitArray := v.bitArray ++ [if ev.bitValue != 0 then 1 else 0] }
  | .Boolean => if ev.type != .Boolean then bad else .ok fun v => { v with boolArray := v.boolArray ++ [ev.boolValue] }
  | .Int =>
    if ev.type != .Int && ev.type != .Bit then bad
    else .ok fun v => { v with intArray := v.intArray ++ [if ev.type == .Int then ev.intValue else ev.bitValue] }
  | .Long =>
    if ev.type != .Long && ev.type != .Int && ev.type != .Bit then bad
    else .ok fun v => { v with longArray := v.longArray ++ [if ev.type == .Long then ev.longValue else if ev.type == .Int then ev.intValue else ev.bitValue] }
  | .Float =>
    if ev.type != .Float && ev.type != .Int && ev.type != .Long && ev.type != .Bit then bad
    else .ok fun v => { v with floatArray := v.floatArray ++
      [if ev.type == .Float then ev.floatValue else intToFloat (if ev.type == .Int then ev.intValue else if ev.type == .Long then ev.longValue else ev.bitValue)] }
  | .String => if ev.type != .String then bad else .ok fun v => { v with stringArray := v.stringArray ++ [ev.stringValue] }
  | .Char => if ev.type != .Char then bad else .ok fun v => { v with charArray := v.charArray ++ [ev.charValue] }
  | _ => bad

def untypedArrayType : VT → Option VT
  | .Bit => some .BitArray | .Boolean => some .BooleanArray | .Int => some .IntArray
  | .Long => some .LongArray | .Float => some .FloatArray | .String => some .StringArray
  | .Char => some .CharArray | _ => none

/-! ### the evaluator's own primitives

Everything `eval`/`exec` do to the state goes through the named operations above and below, the two brackets
`withScope`/`withFrame`, `pure`, `bind` and `throw`; `Eval/Closed.lean` turns that into an induction principle
("what the primitives preserve, every program preserves"). -/

def getHasReturn : EM Bool := do return (← get).hasReturn
def setHasReturn (b : Bool) : EM Unit := modify fun st => { st with hasReturn := b }
def clearReturn : EM Unit := modify fun st => { st with returnValue := {}, hasReturn := false }
def getReturnValue : EM Value := do return (← get).returnValue
def setReturnValue (v : Value) : EM Unit := modify fun st => { st with returnValue := v }
def lookupFnM (name : String) : EM (Option FuncDecl) := do return (← get).lookupFn name
def echoLine (line : String) : EM Unit := modify fun st =>
  if st.echoEnabled then { st with echo := line :: st.echo } else st

/-- `{ … }` and `for`: a scope around `body` -/
def withScope {α : Type} (body : EM α) : EM α := do
  beginScope
  let r ← body
  endScope
  pure r

/-- a call boundary: new frame of one scope, the caller's return flag put aside, the frame's scope ended and the
caller's frame depth and flag restored afterwards -/
def withFrame {α : Type} (body : EM α) : EM α := do
  let saved ← enterFrame
  let prev ← getHasReturn
  let r ← body
  endScope
  leaveFrame saved
  setHasReturn prev
  pure r

def declareParams : List (Param × Value) → EM Unit
  | [] => pure ()
  | (prm, a) :: rest => do
    declareVar prm.name { value := widenFor prm.ty a, tracked := false, initialized := true }
    declareParams rest

def postfixUpdate (op : String) (current : Value) : Value :=
  if op == "++" then
    if current.type == .Float then { current with floatValue := current.floatValue + 1.0 }
    else if current.type == .Long then { current with longValue := wrap64 (current.longValue + 1) }
    else if current.type == .Int then { current with intValue := wrap32 (current.intValue + 1) }
    else current
  else if op == "--" then
    if current.type == .Float then { current with floatValue := current.floatValue - 1.0 }
    else if current.type == .Long then { current with longValue := wrap64 (current.longValue - 1) }
    else if current.type == .Int then { current with intValue := wrap32 (current.intValue - 1) }
    else current
  else current

/-- a call of one of the built-in gates with already evaluated arguments -/
def applyBuiltin (name : String) (argv : List Value) (p : P) : EM Unit := do
  let q0 := (argv.getD 0 {}).qubit
  let a1 := argv.getD 1 {}
  if name == "cx" then
    ensureQubitActive q0 p
    ensureQubitActive a1.qubit p
    if q0 == a1.qubit then rtErr p "cx requires distinct control and target qubits"
    else simCx q0 a1.qubit
  else
    ensureQubitActive q0 p
    let q := q0.toNat
    if name == "h" then simGate (.h q)
    else if name == "x" then simGate (.x q)
    else if name == "y" then simGate (.y q)
    else if name == "z" then simGate (.z q)
    else if !a1.floatValue.isFinite then rtErr p "rotation angle must be finite"
    else if name == "rx" then simGate (.rx q a1.floatValue)
    else if name == "ry" then simGate (.ry q a1.floatValue)
    else simGate (.rz q a1.floatValue)

def allocArray (name : String) : Nat → List Int → EM (List Int)
  | 0, acc => pure acc
  | n + 1, acc => do
    let q ← allocateTrackedQubit name
    allocArray name n (acc ++ [q])

def measureAll (p : P) : List Int → EM Unit
  | [] => pure ()
  | qid :: rest => do
    let _ ← measureQubit qid p
    measureAll p rest

/-- the default content of a sized array declared without initialiser -/
def fillDefault (name : String) (v : Value) (n : Nat) : EM Value :=
  match v.type with
  | .BitArray => pure { v with bitArray := List.replicate n 0 }
  | .BooleanArray => pure { v with boolArray := List.replicate n false }
  | .LongArray => pure { v with longArray := List.replicate n 0 }
  | .IntArray => pure { v with intArray := List.replicate n 0 }
  | .FloatArray => pure { v with floatArray := List.replicate n 0.0 }
  | .StringArray => pure { v with stringArray := List.replicate n "" }
  | .CharArray => pure { v with charArray := List.replicate n 0 }
  | .QubitArray => do
    let qs ← allocArray name n []
    pure { v with qubitArray := qs }
  | _ => pure v

/-- first half of a declaration: the value a variable of this type starts with and the array size (-1: none);
`ev` evaluates the size expression -/
def declDefault (ev : Expr → EM Value) (name : String) (ty : Ty) (noInit : Bool) (p : P) : EM (Value × Int) :=
  match ty with
  | .prim pn =>
    if pn == "qubit" then do
      let q ← allocateTrackedQubit name
      pure ({ type := primTypeOf pn, qubit := q }, -1)
    else pure ({ type := primTypeOf pn }, -1)
  | .array elemTy size sizeExpr => do
    let v0 : Value := match elemTy with
      | .prim en => { type := arrayTypeOf en }
      | _ => {}
    let arraySize ←
      if size < 0 then
        match sizeExpr with
        | some se => do
          let sv ← ev se
          if sv.type != .Int then rtErr p "array size must evaluate to an int"
          else if sv.intValue < 0 then rtErr p "array size must be non-negative"
          else pure sv.intValue
        | none => pure size
      else pure size
    if arraySize ≥ 0 && noInit then do
      let v ← fillDefault name v0 arraySize.toNat
      pure (v, arraySize)
    else pure (v0, arraySize)
  | .named _ _ _ => pure ({ type := .Object }, -1)
  | .void => pure ({}, -1)

/-- second half: the initialiser (typed array initialisers convert element by element); returns the value and
whether the variable counts as initialised -/
def declInit (ev : Expr → EM Value) (evTyped : String → List Expr → Value → EM Value)
    (ty : Ty) (init : Option Expr) (arraySize : Int) (v0 : Value) (p : P) : EM (Value × Bool) :=
  match init with
  | none => pure (v0, false)
  | some ie =>
    match ty with
    | .array (.prim en) _ _ =>
      if en == "qubit" then rtErr p "qubit[] cannot be initialised"
      else
        match ie with
        | .arrLit elems _ =>
          if arraySize ≥ 0 && (elems.length : Int) != arraySize then
            rtErr p "array initialiser length does not match declared size"
          else do
            let v ← evTyped en elems { type := arrayTypeOf en }
            pure (v, true)
        | _ => do
          let v ← ev ie
          pure (v, true)
    | .array _ _ _ => pure (v0, false)      -- array of a non-primitive element: the initialiser is not evaluated
    | _ => do
      let v ← ev ie
      pure (v, true)

mutual

/-- `RuntimeEvaluator::eval` -/
def eval (fuel : Nat) (e : Expr) : EM Value :=
  match fuel with
  | 0 => throw .outOfFuel
  | fuel + 1 =>
    match e with
    | .null _ => pure { type := .Object }
    | .lit value ty p =>
      match literalValue value ty with
      | some v => pure v
      | none => rtErr p ("literal '" ++ value ++ "' is out of range")
    | .paren inner _ => eval fuel inner
    | .cast ty inner p => do
      let v ← eval fuel inner
      liftE (castValue ty v p)
    | .var name _ => lookup name
    | .arrLit elems p =>
      match elems with
      | [] => pure { type := .IntArray }
      | firstE :: rest => do
        let first ← eval fuel firstE
        match untypedArrayType first.type with
        | none => rtErr p "unsupported array literal type"
        | some arrTy => do
          let f0 ← liftE (untypedElem first.type first (exprPos firstE))
          evalUntypedRest fuel first.type rest (f0 { type := arrTy })
    | .this _ => throw (.unsupported "this")
    | .super _ => throw (.unsupported "super")
    | .new _ _ _ => throw (.unsupported "new")
    | .member _ _ _ => throw (.unsupported "member access")
    | .memberAssign _ _ _ _ => throw (.unsupported "member assignment")
    | .bin op l r p => do
      let lv ← eval fuel l
      let rv ← eval fuel r
      liftE (binop op lv rv p)
    | .un op r p => do
      let rv ← eval fuel r
      liftE (unop op rv p)
    | .postfix op l _ =>
      match l with
      | .var name _ => do
        let current ← lookup name
        assignVar name (postfixUpdate op current)
        pure current
      | _ => pure {}
    | .call callee args p =>
      match callee with
      | .var name _ => do
        let argv ← evalArgs fuel args
        if builtinGates.contains name then do
          applyBuiltin name argv p
          pure {}
        else do
          let fn? ← lookupFnM name
          match fn? with
          | some fn => call fuel fn argv
          | none => pure {}     -- no such function and no class context: falls out of the cascade
      | .member _ _ _ => throw (.unsupported "method call")
      | _ => pure {}
    | .measure q p => do
      let qv ← eval fuel q
      measureQubit qv.qubit p
    | .index coll idx p => do
      let cv ← eval fuel coll
      let iv ← eval fuel idx
      let i ← liftE (indexOf iv p)
      liftE (indexValue cv i p)
    | .assign name v _ => do
      let val ← eval fuel v
      assignVar name val
      pure val
    | .arrAssign coll idx v p =>
      match coll with
      | .var name _ => do
        let arr ← lookup name
        let iv ← eval fuel idx
        let i ← liftE (indexOf iv p)
        let rhs ← eval fuel v
        let arr' ← liftE (arrayStore arr i rhs p)
        assignVar name arr'
        pure arr'
      | _ => rtErr p "assignment target must be a variable"

/-- the remaining elements of an untyped array literal -/
def evalUntypedRest (fuel : Nat) (first : VT) (rest : List Expr) (acc : Value) : EM Value :=
  match fuel with
  | 0 => throw .outOfFuel
  | fuel + 1 =>
    match rest with
    | [] => pure acc
    | el :: more => do
      let ev ← eval fuel el
      let f ← liftE (untypedElem first ev (exprPos el))
      evalUntypedRest fuel first more (f acc)

def evalArgs (fuel : Nat) (args : List Expr) : EM (List Value) :=
  match fuel with
  | 0 => throw .outOfFuel
  | fuel + 1 =>
    match args with
    | [] => pure []
    | a :: rest => do
      let v ← eval fuel a
      let vs ← evalArgs fuel rest
      pure (v :: vs)

/-- the elements of a typed array initialiser -/
def evalTypedElems (fuel : Nat) (elem : String) (els : List Expr) (acc : Value) : EM Value :=
  match fuel with
  | 0 => throw .outOfFuel
  | fuel + 1 =>
    match els with
    | [] => pure acc
    | el :: more => do
      let ev ← eval fuel el
      let f ← liftE (typedElem elem ev (exprPos el))
      evalTypedElems fuel elem more (f acc)

/-- `RuntimeEvaluator::call` -/
def call (fuel : Nat) (fn : FuncDecl) (args : List Value) : EM Value :=
  match fuel with
  | 0 => throw .outOfFuel
  | fuel + 1 =>
    withFrame (do
      declareParams (fn.params.zip args)
      clearReturn
      match fn.body with
      | .block stmts _ => execSeq fuel stmts
      | other => exec fuel other
      let ret ← getReturnValue
      pure (widenFor fn.ret ret))

/-- run statements until a `return` is hit -/
def execSeq (fuel : Nat) (stmts : List Stmt) : EM Unit :=
  match fuel with
  | 0 => throw .outOfFuel
  | fuel + 1 =>
    match stmts with
    | [] => pure ()
    | s :: rest => do
      exec fuel s
      let r ← getHasReturn
      if r then pure () else execSeq fuel rest

/-- the `while (true)` of `for` -/
def forLoop (fuel : Nat) (c inc : Expr) (body : Stmt) : EM Unit :=
  match fuel with
  | 0 => throw .outOfFuel
  | fuel + 1 => do
    let cv ← eval fuel c
    if !isTruthy cv then pure ()
    else do
      exec fuel body
      let r ← getHasReturn
      if r then pure ()
      else do
        let _ ← eval fuel inc
        forLoop fuel c inc body

def whileLoop (fuel : Nat) (c : Expr) (body : Stmt) : EM Unit :=
  match fuel with
  | 0 => throw .outOfFuel
  | fuel + 1 => do
    let cv ← eval fuel c
    if !isTruthy cv then pure ()
    else do
      exec fuel body
      let r ← getHasReturn
      if r then pure () else whileLoop fuel c body

/-- `RuntimeEvaluator::exec` -/
def exec (fuel : Nat) (s : Stmt) : EM Unit :=
  match fuel with
  | 0 => throw .outOfFuel
  | fuel + 1 =>
    match s with
    | .varDecl name ty init _ _ isTracked p => do
      let d ← declDefault (eval fuel) name ty init.isNone p
      let vi ← declInit (eval fuel) (evalTypedElems fuel) ty init d.2 d.1 p
      declareVar name { value := widenFor ty vi.1, tracked := isTracked, initialized := vi.2 }
    | .block stmts _ => withScope (execSeq fuel stmts)
    | .expr e => do
      let _ ← eval fuel e
      pure ()
    | .ret v _ =>
      match v with
      | some e => do
        let rv ← eval fuel e
        setReturnValue rv
        setHasReturn true
      | none => setHasReturn true
    | .ifs c t e => do
      let cv ← eval fuel c
      if isTruthy cv then exec fuel t
      else match e with
        | some eb => exec fuel eb
        | none => pure ()
    | .ternary c t e => do
      let cv ← eval fuel c
      if isTruthy cv then exec fuel t else exec fuel e
    | .fors init c inc body =>
      withScope (do
        match init with
        | some i => exec fuel i
        | none => pure ()
        forLoop fuel c inc body)
    | .whiles c body => whileLoop fuel c body
    | .echo v _ => do
      let val ← eval fuel v
      echoLine (valueToString val)
    | .reset t p => do
      let q ← eval fuel t
      resetQubit q.qubit p
    | .measure q p => do
      let qv ← eval fuel q
      if qv.type == .QubitArray then measureAll p qv.qubitArray
      else do
        let _ ← measureQubit qv.qubit p
        pure ()
    | .destroy _ _ => throw (.unsupported "destroy")
    | .assign name v _ => do
      let val ← eval fuel v
      assignVar name val

end

structure RunResult where
  status : Except RErr Unit
  echo : List String
  tracked : List (String × String × Nat)
  sim : Sim.State CF Float
  outcomes : List (Char × Nat × Nat)
  unmeasured : List String          -- names `warnUnmeasured` would list

/-- `RuntimeEvaluator::execute` for a class-free program -/
def execute (prog : Program) (draws : List Float) (echoEnabled : Bool) (logOps : Bool) (fuel : Nat) : RunResult :=
  let st0 : EState := { sim := Sim.State.init floatOps logOps, draws := draws, echoEnabled := echoEnabled,
                        lookupFn := fun n => prog.functions.find? (·.name == n) }
  if !prog.classes.isEmpty then
    { status := .error (.unsupported "classes"), echo := [], tracked := [], sim := st0.sim, outcomes := [], unmeasured := [] }
  else
    let mainFn := prog.functions.find? (·.name == "main")
    let act : EM Unit := match mainFn with
      | some fn => do let _ ← call fuel fn []
      | none => pure ()
    -- on an error the evaluator state at the throw point is what the harness can still observe (QASM, outcomes)
    match act.run st0 with
    | .ok (_, st) =>
      { status := .ok (), echo := st.echo.reverse, tracked := st.tracked, sim := st.sim, outcomes := st.outcomes.reverse,
        unmeasured := (st.qubits.filter (fun q => q.name != "" && !q.measured)).map (·.name) }
    | .error e =>
      { status := .error e, echo := [], tracked := [], sim := st0.sim, outcomes := [], unmeasured := [] }

end BlochVerif.Eval
