/-!
# The evaluator's qubit book (C03, handle clause)

`allocateTrackedQubit` takes the most recently released simulator index if there is one
(`m_freeQubitIndices.back()`), otherwise a fresh one from the simulator; `destroyObject` releases the qubit
handles of the dying object's fields one by one, in field order (`releaseQubit` pushes to the back).  Local
qubits are never released.  This file is that bookkeeping on its own.
-/
namespace BlochVerif.QubitBook

structure Book where
  /-- number of simulator qubits allocated so far -/
  next : Nat := 0
  /-- `m_freeQubitIndices`, back of the vector first -/
  free : List Nat := []
  /-- live owners (0 = locals of the program, n+1 = object n) with the handles they hold, in field order -/
  owned : List (Nat × List Nat) := []
deriving Repr

def Book.live (b : Book) : List Nat := b.owned.flatMap (·.2)

/-- `allocateTrackedQubit` -/
def alloc (b : Book) : Book × Nat :=
  match b.free with
  | h :: rest => ({ b with free := rest }, h)
  | [] => ({ b with next := b.next + 1 }, b.next)

/-- allocate `k` handles in order -/
def allocMany : Nat → Book → Book × List Nat
  | 0, b => (b, [])
  | k + 1, b =>
    let (b1, h) := alloc b
    let (b2, hs) := allocMany k b1
    (b2, h :: hs)

inductive Op where
  /-- declaration of `k` local qubits (a `qubit a, b;` or a `qubit[k] r;`) -/
  | declare (k : Nat)
  /-- `new C(...)` for a class with `k` qubit handles among its fields (own, inherited, register elements) -/
  | newObj (id k : Nat)
  /-- the object dies: every handle of its field list is released, once, in field order -/
  | destroy (id : Nat)
deriving Repr

/-- push each released handle to the back of the free vector -/
def release (free : List Nat) : List Nat → List Nat
  | [] => free
  | h :: hs => release (h :: free) hs

/-- find the dying object's entry: its handles and the remaining owners -/
def takeOwner (id : Nat) : List (Nat × List Nat) → Option (List Nat × List (Nat × List Nat))
  | [] => none
  | o :: rest =>
    if o.1 = id then some (o.2, rest)
    else match takeOwner id rest with
      | some (hs, r) => some (hs, o :: r)
      | none => none

def step (b : Book) : Op → Book × List Nat
  | .declare k =>
    let (b1, hs) := allocMany k b
    ({ b1 with owned := (0, hs) :: b1.owned }, hs)
  | .newObj id k =>
    let (b1, hs) := allocMany k b
    ({ b1 with owned := (id + 1, hs) :: b1.owned }, hs)
  | .destroy id =>
    match takeOwner (id + 1) b.owned with
    | some (hs, r) => ({ b with free := release b.free hs, owned := r }, [])
    | none => (b, [])

def run : Book → List Op → Book × List (List Nat)
  | b, [] => (b, [])
  | b, op :: ops =>
    let (b1, hs) := step b op
    let (b2, rest) := run b1 ops
    (b2, hs :: rest)

end BlochVerif.QubitBook
