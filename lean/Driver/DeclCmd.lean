import BlochVerif.Sem.Decls
/-! `decl <items>`: acceptance of a declaration list.  Items are `;`-separated:
`c,Name,Base|-,calls,news[,abstract 0|1,bodyless virtuals,implemented]` and `f,Name,arity,calls,news` with calls
`g/1+h/0|-`, name lists `A+B|-`. -/
namespace Driver
open BlochVerif.Decls

def parseCalls (s : String) : Option (List (String × Nat)) :=
  if s == "-" then some [] else
  (s.splitOn "+").mapM (fun c => match c.splitOn "/" with
    | [n, k] => do some (n, ← k.toNat?)
    | _ => none)

def parseNews (s : String) : List String := if s == "-" then [] else s.splitOn "+"

def declStep (p : Prog) (item : String) : Option Prog :=
  match item.splitOn "," with
  | ["c", n, b, calls, news] => do
    let cs ← parseCalls calls
    some { p with classes := p.classes ++ [{ name := n, base := if b == "-" then none else some b,
                                             body := { calls := cs, news := parseNews news } }] }
  | ["c", n, b, calls, news, ab, abstracts, impls] => do
    let cs ← parseCalls calls
    some { p with classes := p.classes ++ [{ name := n, base := if b == "-" then none else some b,
                                             body := { calls := cs, news := parseNews news },
                                             isAbstract := ab == "1", abstracts := parseNews abstracts,
                                             impls := parseNews impls }] }
  | ["f", n, k, calls, news] => do
    let cs ← parseCalls calls
    some { p with functions := p.functions ++ [{ name := n, arity := ← k.toNat?,
                                                  body := { calls := cs, news := parseNews news } }] }
  | _ => none

def declLine (items : String) : String :=
  match (items.splitOn ";").foldlM declStep ({} : Prog) with
  | some p => if accept p then "accept" else "reject"
  | none => "bad-op"

end Driver
