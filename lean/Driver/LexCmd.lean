import BlochVerif.Lex.Model
import BlochVerif.Generated.Keywords
import BlochVerif.Util.FloatFmt
/-! Line-protocol handlers for the lexer model (`lex <hex>`). -/
namespace Driver
open BlochVerif BlochVerif.Lex

def tokenTypeName (t : TokenType) : String :=
  let s := toString (repr t)
  (s.splitOn ".").getLast!

def allTokenTypes : List TokenType :=
  [.Identifier, .IntegerLiteral, .FloatLiteral, .LongLiteral, .BitLiteral, .StringLiteral, .CharLiteral,
   .True, .False, .Null, .Int, .Long, .Float, .String, .Char, .Qubit, .Bit, .Boolean, .Void, .Function,
   .Return, .If, .Else, .For, .While, .Measure, .Final, .Reset, .Default, .At, .Quantum, .Tracked, .Shots,
   .Class, .Public, .Private, .Protected, .Static, .Extends, .Abstract, .Virtual, .Override, .Super, .This,
   .Import, .Package, .New, .Constructor, .Destructor, .Destroy, .Equals, .Plus, .PlusPlus, .Minus,
   .MinusMinus, .Star, .Slash, .Percent, .Greater, .GreaterEqual, .Less, .LessEqual, .EqualEqual, .Bang,
   .BangEqual, .Ampersand, .AmpersandAmpersand, .Pipe, .PipePipe, .Caret, .Tilde, .Question, .Colon, .Dot,
   .Semicolon, .Comma, .Arrow, .LParen, .RParen, .LBrace, .RBrace, .LBracket, .RBracket, .Echo, .Eof, .Unknown]

def tokenTypeOfName (n : String) : Option TokenType :=
  allTokenTypes.find? (fun t => tokenTypeName t == n)

/-- the keyword map as the C++ source has it now (regenerated on every run) -/
def keywordOf (text : List Char) : Option TokenType :=
  match Generated.keywordTable.find? (fun p => p.1.toList == text) with
  | some (_, name) => some ((tokenTypeOfName name).getD .Unknown)
  | none => none

def charsOfBytes (bs : List UInt8) : List Char := bs.map (fun b => Char.ofNat b.toNat)
def bytesOfChars (cs : List Char) : List UInt8 := cs.map (fun c => UInt8.ofNat c.toNat)

def errKindName : LexErrKind → String
  | .floatNoF => "float-no-f" | .badBit => "bad-bit"
  | .unterminatedString => "unterminated-string" | .unterminatedChar => "unterminated-char"

def lexLine (hex : String) : String :=
  match (if hex == "-" then some [] else bytesOfHex hex) with
  | none => "bad-op"
  | some bs =>
    match tokenize keywordOf (charsOfBytes bs) with
    | .error e => s!"err {errKindName e.kind} {e.pos.line} {e.pos.col}"
    | .ok toks =>
      "ok" ++ String.join (toks.map (fun t =>
        let h := hexOfBytes (bytesOfChars t.text)
        s!" {tokenTypeName t.type}:{if h.isEmpty then "-" else h}:{t.pos.line}:{t.pos.col}"))

end Driver
