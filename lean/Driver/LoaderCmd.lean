import BlochVerif.Loader.Model
import BlochVerif.Util.FloatFmt
/-! Line-protocol handler for the loader model (`loader <hex spec>`). -/
namespace Driver
open BlochVerif BlochVerif.Loader

def pathOf (s : String) : Path := (s.splitOn "/").filter (· ≠ "")
def listOf (s : String) : List String := if s == "-" then [] else s.splitOn ","
def dotted (s : String) : List String := if s == "-" then [] else s.splitOn "."

def importOf (s : String) : Import :=
  let parts := s.splitOn "."
  match parts.reverse with
  | "*" :: revPkg => { pkg := revPkg.reverse, symbol := none, wildcard := true }
  | sym :: revPkg => { pkg := revPkg.reverse, symbol := some sym, wildcard := false }
  | [] => { pkg := [], symbol := none, wildcard := false }

structure Spec where
  fs : FS := []
  sp : List Path := []
  cwd : Path := []
  entry : Path := []

def specLine (sp : Spec) (line : String) : Spec :=
  match (line.splitOn " ").filter (· ≠ "") with
  | ["CWD", p] => { sp with cwd := pathOf p }
  | "SP" :: ps => { sp with sp := ps.map pathOf }
  | ["ENTRY", p] => { sp with entry := pathOf p }
  | ["D", p] => { sp with fs := sp.fs ++ [(pathOf p, .dir)] }
  | ["X", p] => { sp with fs := sp.fs ++ [(pathOf p, .file none)] }
  | ["F", p, pkg, imps, cls, fns] =>
    let m : Module := { package := if pkg == "-" then none else some (dotted pkg),
                        imports := (listOf imps).map importOf, classes := listOf cls, functions := listOf fns }
    { sp with fs := sp.fs ++ [(pathOf p, .file (some m))] }
  | _ => sp

def errName : LoadErr → String
  | .cycle => "cycle" | .notFound => "not-found" | .pkgMismatch => "pkg-mismatch"
  | .missingSymbol => "missing-symbol" | .parse => "parse" | .openFail => "open-fail"
  | .noMain => "no-main" | .multiMain => "multi-main" | .outOfFuel => "OUT-OF-FUEL"

def commaJoin (l : List String) : String := if l.isEmpty then "-" else ",".intercalate l

def loaderLine (hex : String) : String :=
  match bytesOfHex hex with
  | none => "bad-op"
  | some bs =>
    let text := String.ofList (bs.map (fun b => Char.ofNat b.toNat))
    let sp := (text.splitOn "\n").foldl specLine {}
    match load { fs := sp.fs, searchPaths := sp.sp, cwd := sp.cwd } sp.entry with
    | .error e => "err " ++ errName e
    | .ok m => s!"ok classes={commaJoin m.classes} functions={commaJoin m.functions}"

end Driver
