import BlochVerif.Eval.Flags
/-! `flag <n> <ops>`: first refused operation of the measured-flag machine over n usable qubits. -/
namespace Driver
open BlochVerif.Flags

def parseFlagOp (s : String) : Option Op :=
  match s.splitOn "," with
  | ["g", q] => do some (.gate (← q.toNat?))
  | ["c", a, b] => do some (.cx (← a.toNat?) (← b.toNat?))
  | ["m", q] => do some (.measure (← q.toNat?))
  | ["r", q] => do some (.reset (← q.toNat?))
  | "a" :: qs => do some (.measureArr (← qs.mapM (·.toNat?)))
  | _ => none

def flagLine (n ops : String) : String :=
  match n.toNat?, (if ops == "-" then some [] else (ops.splitOn ";").mapM parseFlagOp) with
  | some k, some os =>
    match firstRefused (List.replicate k false) os 0 with
    | some i => s!"refused {i}"
    | none => "none"
  | _, _ => "bad-op"

end Driver
