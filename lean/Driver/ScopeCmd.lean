import BlochVerif.Sem.Scope
/-! `scope <prefix-coded statement>`: verdict of the analyser model on the declaration/final rules. -/
namespace Driver
open BlochVerif.Sem

/-- prefix reader: returns the tree and the remaining tokens -/
def readExpr : Nat → List String → Option (SExpr × List String)
  | 0, _ => none
  | _, [] => none
  | f + 1, t :: rest =>
    match t with
    | "lit" => some (.lit, rest)
    | "v" => match rest with | n :: r => some (.var n, r) | [] => none
    | "pp" => match rest with | n :: r => some (.post n, r) | [] => none
    | "as" => match rest with
      | n :: r => (readExpr f r).map (fun (e, r') => (.assign n e, r'))
      | [] => none
    | "un" => (readExpr f rest).map (fun (e, r') => (.un e, r'))
    | "bin" => do
      let (a, r1) ← readExpr f rest
      let (b, r2) ← readExpr f r1
      pure (.bin a b, r2)
    | "st" => match rest with
      | n :: r => do
        let (i, r1) ← readExpr f r
        let (e, r2) ← readExpr f r1
        pure (.store n i e, r2)
      | [] => none
    | _ => none

def readStmt : Nat → List String → Option (SStmt × List String)
  | 0, _ => none
  | _, [] => none
  | f + 1, t :: rest =>
    match t with
    | "skip" => some (.skip, rest)
    | "seq" => do
      let (a, r1) ← readStmt f rest
      let (b, r2) ← readStmt f r1
      pure (.seq a b, r2)
    | "scope" => (readStmt f rest).map (fun (s, r) => (.scope s, r))
    | "decl" => match rest with
      | fl :: n :: "-" :: r => some (.decl (fl == "1") n none, r)
      | fl :: n :: r => (readExpr f r).map (fun (e, r') => (.decl (fl == "1") n (some e), r'))
      | _ => none
    | "asg" => match rest with
      | n :: r => (readExpr f r).map (fun (e, r') => (.assign n e, r'))
      | [] => none
    | "ex" => (readExpr f rest).map (fun (e, r') => (.expr e, r'))
    | "if" => do
      let (c, r1) ← readExpr f rest
      let (a, r2) ← readStmt f r1
      let (b, r3) ← readStmt f r2
      pure (.ite c a b, r3)
    | "wh" => do
      let (c, r1) ← readExpr f rest
      let (b, r2) ← readStmt f r1
      pure (.while c b, r2)
    | "for" => do
      let (i, r1) ← readStmt f rest
      let (c, r2) ← readExpr f r1
      let (n, r3) ← readExpr f r2
      let (b, r4) ← readStmt f r3
      pure (.for i c n b, r4)
    | "tern" => do
      let (c, r1) ← readExpr f rest
      let (a, r2) ← readStmt f r1
      let (b, r3) ← readStmt f r2
      pure (.ternary c a b, r3)
    | "echo" => (readExpr f rest).map (fun (e, r') => (.echo e, r'))
    | "ret" => (readExpr f rest).map (fun (e, r') => (.ret e, r'))
    | _ => none

def scopeLine (toks : List String) : String :=
  match readStmt (toks.length + 1) toks with
  | some (s, []) =>
    match checkStmt [[]] s with
    | .ok _ => "accept"
    | .error (.redeclared n) => s!"reject redeclared {n}"
    | .error (.undeclared n) => s!"reject undeclared {n}"
    | .error (.finalWrite n) => s!"reject final-write {n}"
    | .error (.finalNoInit n) => s!"reject final-no-init {n}"
  | _ => "bad-op"

end Driver
