import BlochVerif.Parse.Model
import BlochVerif.Generated.BindingTable
import Driver.LexCmd
/-! Line-protocol handler for the parser model (`parse <hex>`): canonical S-expression of the tree. -/
namespace Driver
open BlochVerif BlochVerif.Lex BlochVerif.Parse

def hexStr (s : String) : String :=
  let h := hexOfBytes s.toUTF8.toList
  if h.isEmpty then "-" else h

/-- strings that came from bytes > 127 were mapped to code points; re-encode as single bytes -/
def hexLatin (s : String) : String :=
  let h := hexOfBytes (s.toList.map (fun c => UInt8.ofNat c.toNat))
  if h.isEmpty then "-" else h

def showP (p : P) : String := s!"@{p.line}:{p.col}"
def showB (b : Bool) : String := if b then "1" else "0"
def dots (l : List String) : String := if l.isEmpty then "-" else ".".intercalate l
def showAnn (a : Ann) : String := s!"(ann {a.name} {hexLatin a.value} {showB a.isFunction} {showB a.isVariable})"
def showAnns (l : List Ann) : String := "[" ++ " ".intercalate (l.map showAnn) ++ "]"

mutual
partial def showTy : Ty → String
  | .void => "void"
  | .prim n => s!"(prim {n})"
  | .named parts args has => s!"(named {dots parts} [{" ".intercalate (args.map showTy)}] {showB has})"
  | .array e size se => s!"(array {showTy e} {size} {match se with | some x => showExpr x | none => "-"})"
partial def showExpr : Expr → String
  | .lit v t p => s!"(lit {hexLatin v} {t} {showP p})"
  | .null p => s!"(null {showP p})"
  | .var n p => s!"(var {n} {showP p})"
  | .bin op l r p => s!"(bin {hexLatin op} {showExpr l} {showExpr r} {showP p})"
  | .un op r p => s!"(un {hexLatin op} {showExpr r} {showP p})"
  | .cast t e p => s!"(cast {showTy t} {showExpr e} {showP p})"
  | .postfix op l p => s!"(postfix {hexLatin op} {showExpr l} {showP p})"
  | .call c args p => s!"(call {showExpr c} [{" ".intercalate (args.map showExpr)}] {showP p})"
  | .member o n p => s!"(member {showExpr o} {n} {showP p})"
  | .new t args p => s!"(new {showTy t} [{" ".intercalate (args.map showExpr)}] {showP p})"
  | .this p => s!"(this {showP p})"
  | .super p => s!"(super {showP p})"
  | .index c i p => s!"(index {showExpr c} {showExpr i} {showP p})"
  | .arrLit es p => s!"(arrlit [{" ".intercalate (es.map showExpr)}] {showP p})"
  | .paren e p => s!"(paren {showExpr e} {showP p})"
  | .measure q p => s!"(measure {showExpr q} {showP p})"
  | .assign n v p => s!"(assign {n} {showExpr v} {showP p})"
  | .memberAssign o n v p => s!"(massign {showExpr o} {n} {showExpr v} {showP p})"
  | .arrAssign c i v p => s!"(aassign {showExpr c} {showExpr i} {showExpr v} {showP p})"
end

def showOptE : Option Expr → String
  | some e => showExpr e
  | none => "-"

partial def showStmt : Stmt → String
  | .varDecl n t i anns f tr p =>
    s!"(vardecl {n} {showTy t} {showOptE i} {showAnns anns} {showB f} {showB tr} {showP p})"
  | .block ss p => s!"(block [{" ".intercalate (ss.map showStmt)}] {showP p})"
  | .expr e => s!"(exprstmt {showExpr e})"
  | .ret v p => s!"(return {showOptE v} {showP p})"
  | .ifs c t e => s!"(if {showExpr c} {showStmt t} {match e with | some x => showStmt x | none => "-"})"
  | .fors i c inc b =>
    s!"(for {match i with | some x => showStmt x | none => "-"} {showExpr c} {showExpr inc} {showStmt b})"
  | .whiles c b => s!"(while {showExpr c} {showStmt b})"
  | .echo v p => s!"(echo {showExpr v} {showP p})"
  | .reset t p => s!"(reset {showExpr t} {showP p})"
  | .measure q p => s!"(measurestmt {showExpr q} {showP p})"
  | .destroy t p => s!"(destroy {showExpr t} {showP p})"
  | .ternary c t e => s!"(ternary {showExpr c} {showStmt t} {showStmt e})"
  | .assign n v p => s!"(assignstmt {n} {showExpr v} {showP p})"

def showOptS : Option Stmt → String
  | some s => showStmt s
  | none => "-"

def showParam (p : Param) : String := s!"(param {p.name} {showTy p.ty} {showP p.p})"
def showParams (l : List Param) : String := "[" ++ " ".intercalate (l.map showParam) ++ "]"
def showVis : Vis → String | .pub => "public" | .priv => "private" | .prot => "protected"

def showMember : Member → String
  | .field v n t i anns f st tr p =>
    s!"(field {showVis v} {n} {showTy t} {showOptE i} {showAnns anns} {showB f} {showB st} {showB tr} {showP p})"
  | .method v n ps r b anns q st vi ov p =>
    s!"(method {showVis v} {n} {showParams ps} {showTy r} {showOptS b} {showAnns anns} {showB q} {showB st} {showB vi} {showB ov} {showP p})"
  | .ctor v ps b d p => s!"(ctor {showVis v} {showParams ps} {showOptS b} {showB d} {showP p})"
  | .dtor v b d p => s!"(dtor {showVis v} {showOptS b} {showB d} {showP p})"

def showTypeParam (t : TypeParam) : String :=
  s!"(tparam {t.name} {match t.bound with | some b => showTy b | none => "-"} {showP t.p})"

def showClass (c : ClassDecl) : String :=
  s!"(class {c.name} [{" ".intercalate (c.typeParams.map showTypeParam)}] {dots c.baseName} {match c.baseType with | some b => showTy b | none => "-"} {showB c.isStatic} {showB c.isAbstract} [{" ".intercalate (c.members.map showMember)}] {showP c.p})"

def showFunc (f : FuncDecl) : String :=
  s!"(function {f.name} {showParams f.params} {showTy f.ret} {showStmt f.body} {showAnns f.anns} {showB f.quantum} {showB f.shots} {showP f.p})"

def showImport (i : ImportDecl) : String :=
  s!"(import {dots i.pkg} {i.symbol.getD "-"} {showB i.wildcard} {showP i.p})"

def showProgram (p : Program) : String :=
  let pkg := match p.package with | some (parts, pos) => s!"(package {dots parts} {showP pos})" | none => "-"
  s!"(program {pkg} [{" ".intercalate (p.imports.map showImport)}] [{" ".intercalate (p.classes.map showClass)}] [{" ".intercalate (p.functions.map showFunc)}] [{" ".intercalate (p.statements.map showStmt)}])"

/-- the Pratt tables as the C++ source has them now (regenerated on every run) -/
def generatedTables : Tables where
  infixBinding := fun t =>
    match Generated.infixTable.find? (fun e => e.1 == tokenTypeName t) with
    | some (_, lbp, rbp, post) => some (lbp, rbp, post)
    | none => none
  prefixBp := Generated.prefixBindingPower

def frontEnd (bs : List UInt8) : Except String Program :=
  match tokenize keywordOf (charsOfBytes bs) with
  | .error e => .error s!"err Lexical {e.pos.line} {e.pos.col}"
  | .ok toks =>
    match parseProgram generatedTables toks with
    | .error e => if e.outOfFuel then .error "err OUT-OF-FUEL" else .error s!"err Parse {e.line} {e.col}"
    | .ok p => .ok p

def parseLine (hex : String) : String :=
  match (if hex == "-" then some [] else bytesOfHex hex) with
  | none => "bad-op"
  | some bs =>
    match frontEnd bs with
    | .error e => e
    | .ok p => "ok " ++ showProgram p

end Driver
