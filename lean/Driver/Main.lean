import Driver.SimCmd
import Driver.UpdCmd
import Driver.LexCmd
import Driver.LoaderCmd
import Driver.ParseCmd
import Driver.RunCmd
import Driver.ObjCmd
import Driver.GcCmd
import Driver.FlagCmd
import Driver.CliCmd
import Driver.SemCmd
import Driver.ScopeCmd
import Driver.BookCmd
import Driver.DeclCmd
/-!
# Line-protocol driver over the executable models

One command per input line, one reply line per command.  Unknown or malformed lines answer
`bad-op`; nothing is defaulted.  Links without Mathlib.
-/
open Driver BlochVerif BlochVerif.Sim

structure DState where
  sim : FState := State.init floatOps

def step (s : DState) (line : String) : DState × String :=
  match line.trimAscii.toString.splitOn " " with
  | "sim" :: args => let (st, out) := simStep' s.sim args; ({ s with sim := st }, out)
  | "upd" :: args => (s, updStep args)
  | ["lex", h] => (s, lexLine h)
  | ["loader", h] => (s, loaderLine h)
  | ["parse", h] => (s, parseLine h)
  | ["run", h, e, d] => (s, runLine h e d)
  | ["obj", h, a] => (s, objLine h a)
  | ["ovl", c, a] => (s, ovlLine c a)
  | ["gen", t] => (s, genLine t)
  | ["heap", o, sc] => (s, heapLine o sc)
  | ["life", o] => (s, lifeLine o)
  | ["lifegc", o, sc] => (s, lifeGcLine o sc)
  | ["flag", n, o] => (s, flagLine n o)
  | ["cli", c, a, e] => (s, cliLine c a e)
  | ["sem", p, e, a] => (s, semLine p e a)
  | "scope" :: toks => (s, scopeLine toks)
  | ["book", o] => (s, bookLine o)
  | ["decl", o] => (s, declLine o)
  | _ => (s, "bad-op")

partial def loop (h : IO.FS.Stream) (out : IO.FS.Stream) (s : DState) : IO Unit := do
  let line ← h.getLine
  if line.isEmpty then return ()
  let (s', o) := step s line
  out.putStrLn o
  out.flush
  loop h out s'

def main : IO Unit := do
  let out ← IO.getStdout
  loop (← IO.getStdin) out {}
  out.flush
