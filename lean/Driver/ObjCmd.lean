import BlochVerif.Obj.Model
/-! Line-protocol handlers for the object-model layer: `obj <hier> <actions>` and `ovl <cands> <args>`. -/
namespace Driver
open BlochVerif.Obj

def parseCls (s : String) : Option Cls :=
  match s.splitOn "," with
  | [o, c, f, d] =>
    match f.toNat? with
    | some fv => if (o == "0" || o == "1") && (c == "0" || c == "1") && (d == "0" || d == "1")
                 then some { overrides := o == "1", callsSuper := c == "1", field := fv, dtor := d == "1" } else none
    | none => none
  | _ => none

def parseAction (s : String) : Option Action :=
  match s.splitOn "," with
  | ["n", v, st, dy, a] => do some (.new (← v.toNat?) (← st.toNat?) (← dy.toNat?) (← a.toNat?))
  | ["w", v] => do some (.who (← v.toNat?))
  | ["c", v] => do some (.call (← v.toNat?))
  | ["f", v] => do some (.getf (← v.toNat?))
  | ["b", v] => do some (.bump (← v.toNat?))
  | ["rs", v] => do some (.readRoot (← v.toNat?))
  | ["g", "i"] => some (.g .int)
  | ["g", "f"] => some (.g .float)
  | ["g", "s"] => some (.g .string)
  | ["g", "o", st] => do some (.g (.obj (← st.toNat?)))
  | ["ch", a, n] => do some (.churn (← a.toNat?) (← n.toNat?))
  | ["ec", n] => do some (.echoChurn (← n.toNat?))
  | ["d", v] => do some (.drop (← v.toNat?))
  | _ => none

def objLine (hier acts : String) : String :=
  match (hier.splitOn ";").mapM parseCls, (if acts == "-" then some [] else (acts.splitOn ";").mapM parseAction) with
  | some h, some as => "trace " ++ "|".intercalate (programTrace h as)
  | _, _ => "bad-op"

def parseTy (s : String) : Option Ty :=
  match s with
  | "i" => some .int | "l" => some .long | "f" => some .float | "s" => some .string
  | "b" => some .boolean | "t" => some .bit | "c" => some .char | "n" => some .null
  | _ => if s.startsWith "C" then (s.drop 1).toNat?.map Ty.cls else none

def parseTys (s : String) : Option (List Ty) :=
  if s == "-" then some [] else (s.splitOn ",").mapM parseTy

def ovlLine (cands args : String) : String :=
  match (if cands == "-" then some [] else (cands.splitOn ";").mapM parseTys), parseTys args with
  | some cs, some as =>
    match pick cs as with
    | .none => "none"
    | .ambiguous => "ambiguous"
    | .chosen i => s!"chosen {i}"
  | _, _ => "bad-op"

def genLine (ts : String) : String :=
  match (if ts == "-" then some [] else (ts.splitOn ",").mapM (·.toNat?)) with
  | some l => "trace " ++ "|".intercalate (genRun [] l)
  | none => "bad-op"

end Driver
