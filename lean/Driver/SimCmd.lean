import BlochVerif.Sim.FloatInst
import BlochVerif.Sim.Qasm
/-! Line-protocol handlers for the simulator model (`sim …`). -/
namespace Driver
open BlochVerif BlochVerif.Sim

abbrev FState := State CF Float

def fmtAngle (t : Float) : String := fmtFixed t 6

def errStr : SimErr → String
  | .outOfRange _ => "err range"
  | .measured _ => "err measured"
  | .sameOperand _ => "err same"

def natArg (s : String) : Option (Except Unit Nat) :=
  -- some (ok n) for n ≥ 0, some (error ()) for a negative int, none if not an int
  match s.toInt? with
  | some i => if i < 0 then some (.error ()) else some (.ok i.toNat)
  | none => none

def stateLine (st : FState) : String :=
  "state " ++ toString st.n ++ " " ++ toString st.amps.size ++
    st.amps.foldl (fun acc z => acc ++ " " ++ toHex64 z.re.toBits ++ " " ++ toHex64 z.im.toBits) ""

def simStep (st : FState) (args : List String) : FState × String :=
  let withQ (q : String) (k : Nat → FState × String) : FState × String :=
    match natArg q with
    | some (.ok n) => k n
    | some (.error _) => (st, "err range")
    | none => (st, "bad-op")
  let run1 (op : QOp Float) : FState × String :=
    match gate1 floatOps st op with
    | .ok st' => (st', "ok")
    | .error e => (st, errStr e)
  match args with
  | ["new", l] => (State.init floatOps (l == "1"), "ok")
  | ["alloc"] => let (st', i) := allocate floatOps st; (st', "ok " ++ toString i)
  | ["h", q] => withQ q fun n => run1 (.h n)
  | ["x", q] => withQ q fun n => run1 (.x n)
  | ["y", q] => withQ q fun n => run1 (.y n)
  | ["z", q] => withQ q fun n => run1 (.z n)
  | [g, q, t] =>
    match floatOfHex t with
    | none => (st, "bad-op")
    | some tv =>
      if g == "rx" then withQ q fun n => run1 (.rx n tv)
      else if g == "ry" then withQ q fun n => run1 (.ry n tv)
      else if g == "rz" then withQ q fun n => run1 (.rz n tv)
      else if g == "cx" then (st, "bad-op")
      else if g == "measure" then withQ q fun n =>
        match measure floatOps st n tv with
        | .ok (st', r) => (st', "ok " ++ toString r)
        | .error e => (st, errStr e)
      else if g == "reset" then withQ q fun n =>
        match reset floatOps st n tv with
        | .ok (st', r) => (st', "ok " ++ toString r)
        | .error e => (st, errStr e)
      else (st, "bad-op")
  | ["state"] => (st, stateLine st)
  | ["qasm"] => (st, "qasm " ++ hexOfBytes (getQasm fmtAngle st).toUTF8.toList)
  | ["flags"] => (st, "flags" ++ st.measured.foldl (fun acc b => acc ++ (if b then " 1" else " 0")) "")
  | _ => (st, "bad-op")

/-- `cx` has two integer operands and no float; handled before the 3-argument float forms. -/
def simStep' (st : FState) (args : List String) : FState × String :=
  match args with
  | ["cx", c, t] =>
    match natArg c, natArg t with
    | some (.ok cn), some (.ok tn) =>
      (match cx st cn tn with
       | .ok st' => (st', "ok")
       | .error e => (st, errStr e))
    | some _, some _ => (st, "err range")
    | _, _ => (st, "bad-op")
  | _ => simStep st args

end Driver
