import BlochVerif.Sem.Compat
/-! `sem <position> <expected> <actual>`: does the analyser model reject `actual` where `expected` is declared? -/
namespace Driver
open BlochVerif.Sem

def parseSemTy (s : String) : Option Ty :=
  let prim (t : String) : Option VT :=
    match t with
    | "int" => some .int | "long" => some .long | "float" => some .float | "bit" => some .bit
    | "boolean" => some .boolean | "string" => some .string | "char" => some .char | "qubit" => some .qubit
    | _ => none
  if s == "null" then some .null
  else if s.endsWith "[]" then
    let b := (s.dropEnd 2).toString
    match prim b with
    | some p => some (.arr p)
    | none => if b.startsWith "C" then (b.drop 1).toNat?.map Ty.objArr else none
  else match prim s with
    | some p => some (.prim p)
    | none => if s.startsWith "C" then (s.drop 1).toNat?.map Ty.cls else none

def semLine (pos e a : String) : String :=
  match parseSemTy e, parseSemTy a with
  | some et, some at' =>
    let f : Option (TI → TI → Bool) := match pos with
      | "init" => some rejectsInit | "assign" => some rejectsAssign | "field" => some rejectsFieldAssign
      | "arg" => some rejectsArg | "ret" => some rejectsReturn | _ => none
    match f with
    | some g => if g et.toTI at'.toTI then "reject" else "accept"
    | none => "bad-op"
  | _, _ => "bad-op"

end Driver
