import BlochVerif.Eval.Model
import Driver.ParseCmd
import Driver.SimCmd
/-! Line-protocol handler for the evaluator model (`run <src-hex> <echo> <draws>`). -/
namespace Driver
open BlochVerif BlochVerif.Eval BlochVerif.Parse

def insertSortedStr (x : String) : List String → List String
  | [] => [x]
  | y :: ys => if x < y then x :: y :: ys else y :: insertSortedStr x ys

def sortStrs (l : List String) : List String := l.foldr insertSortedStr []

def showRun (r : RunResult) : String :=
  let status := match r.status with
    | .ok _ => "ok"
    | .error (.runtime l c _) => s!"err Runtime {l} {c}"
    | .error (.unsupported w) => "unsupported " ++ w.replace " " "-"
    | .error .outOfFuel => "err OUT-OF-FUEL"
  match r.status with
  | .ok _ =>
    let echo := ",".intercalate (r.echo.map hexLatin)
    let tracked := ";".intercalate (sortStrs (r.tracked.map (fun t => s!"{hexLatin t.1}:{t.2.1}:{t.2.2}")))
    let outs := ",".intercalate (r.outcomes.map (fun o => s!"{o.1}{o.2.1}:{o.2.2}"))
    let qasm := hexOfBytes (Sim.getQasm fmtAngle r.sim).toUTF8.toList
    let warn := ",".intercalate (r.unmeasured.map hexLatin)
    s!"{status} echo={echo} tracked={tracked} outcomes={outs} qasm={qasm} warn={warn} {stateLine r.sim}"
  | .error _ => status

def runLine (srcHex echo drawsArg : String) : String :=
  match (if srcHex == "-" then some [] else bytesOfHex srcHex) with
  | none => "bad-op"
  | some bs =>
    match frontEnd bs with
    | .error e => e
    | .ok prog =>
      let draws := if drawsArg == "-" then [] else (drawsArg.splitOn ",").filterMap floatOfHex
      showRun (execute prog draws (echo == "1") true 200000)

end Driver
