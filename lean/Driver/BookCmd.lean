import BlochVerif.Eval.QubitBook
/-! `book <ops>`: the handles the qubit book hands out (`d,k` declare; `n,id,k` new object; `x,id` destroy). -/
namespace Driver
open BlochVerif.QubitBook

def parseBookOp (s : String) : Option Op :=
  match s.splitOn "," with
  | ["d", k] => do some (.declare (← k.toNat?))
  | ["n", i, k] => do some (.newObj (← i.toNat?) (← k.toNat?))
  | ["x", i] => do some (.destroy (← i.toNat?))
  | _ => none

def bookLine (ops : String) : String :=
  match (if ops == "-" then some [] else (ops.splitOn ";").mapM parseBookOp) with
  | some os => "handles " ++ ";".intercalate ((run {} os).2.map (fun hs => ",".intercalate (hs.map toString)))
  | none => "bad-op"

end Driver
