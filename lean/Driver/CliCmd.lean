import BlochVerif.Cli.Model
/-! `cli <cliShots|-> <annotation|-> <echoOpt|->` : resolved shot count and echo policy. -/
namespace Driver
open BlochVerif.Cli

def cliLine (c a e : String) : String :=
  let po (s : String) : Option (Option Nat) := if s == "-" then some none else s.toNat?.map some
  match po c, po a with
  | some cs, some an =>
    let (prov, n) := resolveShots cs an
    let opt := if e == "-" then none else some (if e == "<empty>" then "" else e)
    s!"shots={n} provided={if prov then 1 else 0} echo={if echoAll opt prov n then 1 else 0} warn={if warnsIgnoredFlag cs an then 1 else 0}"
  | _, _ => "bad-op"

end Driver
