import BlochVerif.Update.Model
import BlochVerif.Util.FloatFmt
/-! Line-protocol handlers for the updater model (`upd …`). -/
namespace Driver
open BlochVerif BlochVerif.Update

def charsOfHex (h : String) : Option (List Char) :=
  if h == "-" then some [] else
  (bytesOfHex h).map (fun bs => bs.map (fun b => Char.ofNat b.toNat))

def hexOfChars (cs : List Char) : String :=
  if cs.isEmpty then "-" else hexOfBytes (cs.map (fun c => UInt8.ofNat c.toNat))

def labelStr : Label → String
  | .new => "new" | .major => "major" | .minor => "minor" | .patch => "patch"

def decisionStr : Decision → String
  | .alreadyLatest => "already-latest" | .unparsable => "unparsable" | .install => "install"

def updStep (args : List String) : String :=
  match args with
  | ["semver", h] =>
    match charsOfHex h with
    | none => "bad-op"
    | some s =>
      let v := parseSemVer s
      if v.valid then s!"valid {v.major} {v.minor} {v.patch}" else "invalid"
  | ["cmp", a, b] =>
    match charsOfHex a, charsOfHex b with
    | some x, some y =>
      let c := parseSemVer x; let l := parseSemVer y
      s!"{compareSemVer c l} {labelStr (changeLabel c l)} {decisionStr (decideUpdate x y)}"
    | _, _ => "bad-op"
  | ["checksum", c, a] =>
    match charsOfHex c, charsOfHex a with
    | some content, some asset =>
      match parseChecksum content asset with
      | some h => "some " ++ hexOfChars h
      | none => "none"
    | _, _ => "bad-op"
  | ["notice", l, c, now, notified] =>
    match charsOfHex l, charsOfHex c, now.toInt?, notified.toInt? with
    | some lat, some cur, some n, some ln =>
      let (c', printed) := maybeNotice lat cur n { latest := [], lastChecked := 0, lastNotified := ln }
      s!"{if printed then 1 else 0} {c'.lastNotified} {hexOfChars c'.latest}"
    | _, _, _, _ => "bad-op"
  | ["due", skip, cur, present, ageChecked, lat, ageNotified] =>
    -- times are exchanged as ages relative to the invocation time
    match charsOfHex cur, charsOfHex lat, ageChecked.toInt?, ageNotified.toInt? with
    | some current, some latest, some ac, some an =>
      let now : Int := 2000000000
      let file : Option Cache :=
        if present == "1" then some { latest := latest, lastChecked := now - ac, lastNotified := now - an } else none
      let (file', k) := checkIfDue file { now := now, skip := skip != "0", current := current, fetch := none }
      match file' with
      | none => s!"{k} none"
      | some c => s!"{k} {now - c.lastChecked} {hexOfChars c.latest} {now - c.lastNotified}"
    | _, _, _, _ => "bad-op"
  | _ => "bad-op"

end Driver
