import BlochVerif.Gc.Model
import BlochVerif.Life.Model
import BlochVerif.Life.Gc
/-! `heap <ops> <schedule>`: the heap machine's output under a collection schedule (none | all | hex bitmask). -/
namespace Driver
open BlochVerif.Gc

def parseHeapOp (s : String) : Option Op :=
  match s.splitOn "," with
  | ["new", v, i] => do some (.new (← v.toNat?) (← i.toInt?))
  | ["seta", v, w] => do some (.seta (← v.toNat?) (← w.toNat?))
  | ["setb", v, w] => do some (.setb (← v.toNat?) (← w.toNat?))
  | ["geta", v, w] => do some (.geta (← v.toNat?) (← w.toNat?))
  | ["getb", v, w] => do some (.getb (← v.toNat?) (← w.toNat?))
  | ["null", v] => do some (.null (← v.toNat?))
  | ["show", v] => do some (.show (← v.toNat?))
  | ["showa", v] => do some (.showa (← v.toNat?))
  | ["churn", n] => do some (.churn (← n.toNat?))
  | ["link", v, i, j] => do some (.link (← v.toNat?) (← i.toInt?) (← j.toInt?))
  | ["walk", v, k] => do some (.walk (← v.toNat?) (← k.toNat?))
  | _ => none

def hexNibble (c : Char) : Option Nat :=
  if '0' ≤ c && c ≤ '9' then some (c.toNat - '0'.toNat)
  else if 'a' ≤ c && c ≤ 'f' then some (c.toNat - 'a'.toNat + 10) else none

def parseSched (s : String) : Option (Nat → Bool) :=
  if s == "none" then some (fun _ => false)
  else if s == "all" then some (fun _ => true)
  else
    match s.toList.reverse.mapM hexNibble with
    | some nibs => some (fun k => match nibs[k / 4]? with
                                   | some v => (v >>> (k % 4)) % 2 == 1
                                   | none => false)
    | none => none

def heapLine (ops sched : String) : String :=
  match (if ops == "-" then some [] else (ops.splitOn ";").mapM parseHeapOp), parseSched sched with
  | some os, some f => "trace " ++ "|".intercalate (runOps f os)
  | _, _ => "bad-op"

/-- `life <ops>`: output under reference counting (no collection), then the destructor lines of the end of `main` -/
def lifeLine (ops : String) : String :=
  match (if ops == "-" then some [] else (ops.splitOn ";").mapM parseHeapOp) with
  | some os =>
    let s := BlochVerif.Life.runOps os
    "trace " ++ "|".intercalate s.out ++ " ## " ++ "|".intercalate (BlochVerif.Life.finalDestructors s)
  | none => "bad-op"

/-- `lifegc <ops> <schedule>`: the same machine with a collection before every step the schedule selects -/
def lifeGcLine (ops sched : String) : String :=
  match (if ops == "-" then some [] else (ops.splitOn ";").mapM parseHeapOp), parseSched sched with
  | some os, some f =>
    let s := BlochVerif.Life.runOpsS f os
    "trace " ++ "|".intercalate s.out ++ " ## " ++ "|".intercalate (BlochVerif.Life.finalDestructors s)
  | _, _ => "bad-op"

end Driver
