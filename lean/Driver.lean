import Driver.Main
