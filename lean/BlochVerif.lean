import BlochVerif.Util.Loops
import BlochVerif.Util.FloatFmt
import BlochVerif.Sim.Model
import BlochVerif.Sim.FloatInst
import BlochVerif.Sim.Qasm
